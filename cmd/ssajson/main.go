// ssajson loads a Go module with go/packages, lowers it with go/ssa in naive
// form (every source variable stays a named memory cell, no phi lifting) and
// dumps the non-test functions of the requested packages as JSON for the
// Python verification-condition generator (govc).
package main

import (
	"encoding/json"
	"flag"
	"fmt"
	"go/constant"
	"go/token"
	"go/types"
	"os"
	"sort"
	"strings"

	"golang.org/x/tools/go/packages"
	"golang.org/x/tools/go/ssa"
	"golang.org/x/tools/go/ssa/ssautil"
)

type J = map[string]interface{}

var typeTab = map[string]J{}
var fset *token.FileSet

func tid(t types.Type) string {
	if t == nil {
		return ""
	}
	key := t.String()
	if _, ok := typeTab[key]; ok {
		return key
	}
	e := J{}
	typeTab[key] = e
	switch tt := t.(type) {
	case *types.Basic:
		e["kind"] = "basic"
		e["name"] = tt.Name()
	case *types.Pointer:
		e["kind"] = "ptr"
		e["elem"] = tid(tt.Elem())
	case *types.Named:
		e["kind"] = "named"
		e["name"] = tt.Obj().Name()
		if tt.Obj().Pkg() != nil {
			e["pkg"] = tt.Obj().Pkg().Path()
		}
		e["under"] = tid(tt.Underlying())
	case *types.Alias:
		e["kind"] = "named"
		e["name"] = tt.Obj().Name()
		e["under"] = tid(types.Unalias(tt))
	case *types.Struct:
		e["kind"] = "struct"
		fs := []J{}
		for i := 0; i < tt.NumFields(); i++ {
			f := tt.Field(i)
			fs = append(fs, J{"name": f.Name(), "type": tid(f.Type())})
		}
		e["fields"] = fs
	case *types.Array:
		e["kind"] = "array"
		e["len"] = tt.Len()
		e["elem"] = tid(tt.Elem())
	case *types.Slice:
		e["kind"] = "slice"
		e["elem"] = tid(tt.Elem())
	case *types.Tuple:
		e["kind"] = "tuple"
		es := []string{}
		for i := 0; i < tt.Len(); i++ {
			es = append(es, tid(tt.At(i).Type()))
		}
		e["elems"] = es
	case *types.Signature:
		e["kind"] = "func"
	case *types.Interface:
		e["kind"] = "interface"
	default:
		e["kind"] = "other"
		e["go"] = fmt.Sprintf("%T", t)
	}
	return key
}

func pos(p token.Pos) string {
	if !p.IsValid() {
		return ""
	}
	q := fset.Position(p)
	f := q.Filename
	if i := strings.LastIndex(f, "/"); i >= 0 {
		// keep dir/file for field/
		if j := strings.LastIndex(f[:i], "/"); j >= 0 && strings.HasSuffix(f[:i], "/field") {
			f = f[j+1:]
		} else {
			f = f[i+1:]
		}
	}
	return fmt.Sprintf("%s:%d:%d", f, q.Line, q.Column)
}

func val(v ssa.Value) J {
	if v == nil {
		return nil
	}
	switch x := v.(type) {
	case *ssa.Const:
		j := J{"k": "const", "t": tid(x.Type())}
		if x.Value == nil {
			j["nil"] = true
		} else {
			switch x.Value.Kind() {
			case constant.Int:
				j["v"] = x.Value.ExactString()
			case constant.Bool:
				j["b"] = constant.BoolVal(x.Value)
			case constant.String:
				j["s"] = constant.StringVal(x.Value)
			default:
				j["v"] = x.Value.ExactString()
			}
		}
		return j
	case *ssa.Parameter:
		return J{"k": "param", "n": x.Name(), "t": tid(x.Type())}
	case *ssa.FreeVar:
		return J{"k": "freevar", "n": x.Name(), "t": tid(x.Type())}
	case *ssa.Global:
		return J{"k": "global", "n": x.Pkg.Pkg.Path() + "." + x.Name(), "t": tid(x.Type())}
	case *ssa.Function:
		return J{"k": "func", "n": fname(x)}
	case *ssa.Builtin:
		return J{"k": "builtin", "n": x.Name()}
	default:
		return J{"k": "reg", "n": v.Name(), "t": tid(v.Type())}
	}
}

func fname(f *ssa.Function) string {
	return f.String()
}

func instr(in ssa.Instruction) J {
	j := J{"pos": pos(in.Pos())}
	if v, ok := in.(ssa.Value); ok {
		j["reg"] = v.Name()
		j["type"] = tid(v.Type())
	}
	switch x := in.(type) {
	case *ssa.Alloc:
		j["op"] = "Alloc"
		j["heap"] = x.Heap
		j["comment"] = x.Comment
	case *ssa.BinOp:
		j["op"] = "BinOp"
		j["binop"] = x.Op.String()
		j["x"] = val(x.X)
		j["y"] = val(x.Y)
	case *ssa.UnOp:
		j["op"] = "UnOp"
		j["unop"] = x.Op.String()
		j["x"] = val(x.X)
		j["commaok"] = x.CommaOk
	case *ssa.Call:
		j["op"] = "Call"
		c := x.Call
		args := []J{}
		for _, a := range c.Args {
			args = append(args, val(a))
		}
		j["args"] = args
		if c.IsInvoke() {
			j["invoke"] = c.Method.Name()
			j["fn"] = val(c.Value)
		} else {
			j["fn"] = val(c.Value)
		}
	case *ssa.ChangeType:
		j["op"] = "ChangeType"
		j["x"] = val(x.X)
	case *ssa.Convert:
		j["op"] = "Convert"
		j["x"] = val(x.X)
	case *ssa.Extract:
		j["op"] = "Extract"
		j["x"] = val(x.Tuple)
		j["index"] = x.Index
	case *ssa.Field:
		j["op"] = "Field"
		j["x"] = val(x.X)
		j["field"] = x.Field
	case *ssa.FieldAddr:
		j["op"] = "FieldAddr"
		j["x"] = val(x.X)
		j["field"] = x.Field
	case *ssa.Index:
		j["op"] = "Index"
		j["x"] = val(x.X)
		j["index"] = val(x.Index)
	case *ssa.IndexAddr:
		j["op"] = "IndexAddr"
		j["x"] = val(x.X)
		j["index"] = val(x.Index)
	case *ssa.Slice:
		j["op"] = "Slice"
		j["x"] = val(x.X)
		j["low"] = val(x.Low)
		j["high"] = val(x.High)
		j["max"] = val(x.Max)
	case *ssa.MakeSlice:
		j["op"] = "MakeSlice"
		j["len"] = val(x.Len)
		j["cap"] = val(x.Cap)
	case *ssa.MakeClosure:
		j["op"] = "MakeClosure"
		j["fn"] = val(x.Fn)
		bs := []J{}
		for _, b := range x.Bindings {
			bs = append(bs, val(b))
		}
		j["bindings"] = bs
	case *ssa.MakeInterface:
		j["op"] = "MakeInterface"
		j["x"] = val(x.X)
	case *ssa.SliceToArrayPointer:
		j["op"] = "SliceToArrayPointer"
		j["x"] = val(x.X)
	case *ssa.Store:
		j["op"] = "Store"
		j["addr"] = val(x.Addr)
		j["val"] = val(x.Val)
	case *ssa.If:
		j["op"] = "If"
		j["cond"] = val(x.Cond)
	case *ssa.Jump:
		j["op"] = "Jump"
	case *ssa.Return:
		j["op"] = "Return"
		rs := []J{}
		for _, r := range x.Results {
			rs = append(rs, val(r))
		}
		j["results"] = rs
	case *ssa.Panic:
		j["op"] = "Panic"
		j["x"] = val(x.X)
	case *ssa.Phi:
		j["op"] = "Phi"
		es := []J{}
		for _, e := range x.Edges {
			es = append(es, val(e))
		}
		j["edges"] = es
		j["comment"] = x.Comment
	case *ssa.DebugRef:
		return nil
	case *ssa.RunDefers:
		j["op"] = "RunDefers"
	default:
		j["op"] = "Unsupported"
		j["go"] = fmt.Sprintf("%T", in)
		j["text"] = in.String()
	}
	return j
}

func dumpFunc(f *ssa.Function) J {
	j := J{"name": fname(f), "pos": pos(f.Pos()), "short": f.Name()}
	if f.Pkg != nil {
		j["pkg"] = f.Pkg.Pkg.Path()
	}
	if f.Synthetic != "" {
		j["synthetic"] = f.Synthetic
	}
	ps := []J{}
	for _, p := range f.Params {
		ps = append(ps, J{"name": p.Name(), "type": tid(p.Type())})
	}
	j["params"] = ps
	j["recv"] = f.Signature.Recv() != nil
	fv := []J{}
	for _, p := range f.FreeVars {
		fv = append(fv, J{"name": p.Name(), "type": tid(p.Type())})
	}
	j["freevars"] = fv
	rs := []string{}
	res := f.Signature.Results()
	for i := 0; i < res.Len(); i++ {
		rs = append(rs, tid(res.At(i).Type()))
	}
	j["results"] = rs
	j["exported"] = token.IsExported(f.Name())
	if f.Parent() != nil {
		j["parent"] = fname(f.Parent())
	}
	an := []string{}
	for _, a := range f.AnonFuncs {
		an = append(an, fname(a))
	}
	j["anon"] = an
	j["hasBody"] = len(f.Blocks) > 0
	bs := []J{}
	for _, b := range f.Blocks {
		bj := J{"idx": b.Index, "comment": b.Comment}
		pr := []int{}
		for _, p := range b.Preds {
			pr = append(pr, p.Index)
		}
		su := []int{}
		for _, s := range b.Succs {
			su = append(su, s.Index)
		}
		bj["preds"] = pr
		bj["succs"] = su
		is := []J{}
		for _, in := range b.Instrs {
			if ij := instr(in); ij != nil {
				is = append(is, ij)
			}
		}
		bj["instrs"] = is
		bs = append(bs, bj)
	}
	j["blocks"] = bs
	return j
}

func main() {
	dir := flag.String("dir", "/repo", "module directory")
	tags := flag.String("tags", "verif", "build tags")
	overlayJSON := flag.String("overlay", "", "optional overlay json (go build -overlay format)")
	out := flag.String("o", "-", "output file")
	flag.Parse()

	cfg := &packages.Config{
		Mode:       packages.LoadAllSyntax,
		Dir:        *dir,
		BuildFlags: []string{"-tags=" + *tags},
		Env:        append(os.Environ(), "GOFLAGS=-mod=mod", "GOPROXY=off", "GOSUMDB=off", "GOTOOLCHAIN=local"),
	}
	if *overlayJSON != "" {
		data, err := os.ReadFile(*overlayJSON)
		if err != nil {
			fmt.Fprintln(os.Stderr, err)
			os.Exit(2)
		}
		var ov struct{ Replace map[string]string }
		if err := json.Unmarshal(data, &ov); err != nil {
			fmt.Fprintln(os.Stderr, err)
			os.Exit(2)
		}
		cfg.Overlay = map[string][]byte{}
		for k, v := range ov.Replace {
			b, err := os.ReadFile(v)
			if err != nil {
				fmt.Fprintln(os.Stderr, err)
				os.Exit(2)
			}
			cfg.Overlay[k] = b
		}
	}
	pkgs, err := packages.Load(cfg, "./...")
	if err != nil {
		fmt.Fprintln(os.Stderr, "load:", err)
		os.Exit(2)
	}
	nerr := 0
	packages.Visit(pkgs, nil, func(p *packages.Package) {
		for _, e := range p.Errors {
			fmt.Fprintln(os.Stderr, "pkg error:", e)
			nerr++
		}
	})
	if nerr > 0 {
		os.Exit(2)
	}
	fset = pkgs[0].Fset
	prog, spkgs := ssautil.AllPackages(pkgs, ssa.NaiveForm|ssa.GlobalDebug)
	prog.Build()

	res := J{"tags": *tags}
	pj := J{}
	for i, sp := range spkgs {
		if sp == nil {
			continue
		}
		p := pkgs[i]
		if strings.Contains(p.PkgPath, "_asm") {
			continue
		}
		pk := J{}
		files := []string{}
		for _, f := range p.CompiledGoFiles {
			files = append(files, f)
		}
		pk["files"] = files
		other := []string{}
		for _, f := range p.OtherFiles {
			other = append(other, f)
		}
		pk["otherFiles"] = other
		globals := []J{}
		funcs := J{}
		names := []string{}
		for n := range sp.Members {
			names = append(names, n)
		}
		sort.Strings(names)
		var addFn func(f *ssa.Function)
		addFn = func(f *ssa.Function) {
			if f == nil {
				return
			}
			if _, ok := funcs[fname(f)]; ok {
				return
			}
			funcs[fname(f)] = dumpFunc(f)
			for _, a := range f.AnonFuncs {
				addFn(a)
			}
		}
		for _, n := range names {
			switch m := sp.Members[n].(type) {
			case *ssa.Global:
				globals = append(globals, J{"name": p.PkgPath + "." + m.Name(), "type": tid(m.Type()), "pos": pos(m.Pos())})
			case *ssa.Function:
				addFn(m)
			case *ssa.Type:
				t := m.Type()
				tid(t)
				for _, tt := range []types.Type{t, types.NewPointer(t)} {
					ms := prog.MethodSets.MethodSet(tt)
					for k := 0; k < ms.Len(); k++ {
						fn := prog.MethodValue(ms.At(k))
						if fn != nil && fn.Synthetic == "" {
							addFn(fn)
						}
					}
				}
			}
		}
		pk["globals"] = globals
		pk["funcs"] = funcs
		pj[p.PkgPath] = pk
	}
	res["packages"] = pj
	res["types"] = typeTab
	var w *os.File = os.Stdout
	if *out != "-" {
		w, err = os.Create(*out)
		if err != nil {
			fmt.Fprintln(os.Stderr, err)
			os.Exit(2)
		}
		defer w.Close()
	}
	enc := json.NewEncoder(w)
	if err := enc.Encode(res); err != nil {
		fmt.Fprintln(os.Stderr, err)
		os.Exit(2)
	}
}
