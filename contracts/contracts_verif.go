//go:build verif

// Contracts for package edwards25519, checked by /verif/govc (contract-based deductive
// verification).  This file contains only comments: with or without the `verif`
// build tag it adds no symbol to the package.
//
// Tier F (`mode ring`): a field.Element is an opaque value of GF(p); `lv(e)` is that value,
// `cong(a, b, P)` is equality in GF(p), `inv(e)` is the limb-bound invariant of package field.
// The callee contracts of package field are read through the ring homomorphism Z -> GF(p).
package edwards25519

//@ const P = 2^255 - 19

// A Point holds four elements within the representation invariant in every reachable state,
// including the zero value:
//@ define elems(p) = inv(p.x) && inv(p.y) && inv(p.z) && inv(p.t)
// the algebraic part of validity (property C12): Z != 0, on the curve, X*Y = Z*T
//@ define oncurve(p) = cong(lv(p.y)*lv(p.y) - lv(p.x)*lv(p.x), lv(p.z)*lv(p.z) + lv(d)*lv(p.t)*lv(p.t), P)
//@ define txy(p) = cong(lv(p.x)*lv(p.y), lv(p.z)*lv(p.t), P)
//@ define zne(p) = !cong(lv(p.z), 0, P)
//@ define validc(p) = zne(p) && oncurve(p) && txy(p)
// `init` is the test the code itself makes (both X and Y are the zero limb vector):
//@ define init(p) = !(rawzero(p.x) && rawzero(p.y))
// data-structure invariant of Point:  zero value, or a valid curve point
//@ define wf(p) = elems(p) && (init(p) ==> validc(p))
//@ define samepoint(v, u) = eqlimbs(v.x, u.x) && eqlimbs(v.y, u.y) && eqlimbs(v.z, u.z) && eqlimbs(v.t, u.t)

// a valid point is never the zero value: X = Y = 0 and the two equations force Z = 0
//@ lemma validinit(p *Point): validc(p) ==> init(p)

//@ globalinv [G:identity] pt(identity) == gid() && gvalid(identity)
//@ globalinv [G:generator] pt(generator) == gbase() && gvalid(generator)

//@ globalinv [F:d] inv(d)
//@ globalinv [F:d2] inv(d2) && cong(lv(d2), 2 * lv(d), P)
// d != -1 (ground-checked on the real constant; assumed only by the round-trip lemmas, `opt inv=dne`)
//@ globalinv [O:dne] !cong(lv(d) + 1, 0, P)
//@ globalinv [F:feOne] isone(feOne)
//@ globalinv [F:identity] elems(identity) && init(identity) && validc(identity) && cong(lv(identity.x), 0, P) && cong(lv(identity.y), lv(identity.z), P)
//@ globalinv [F:generator] elems(generator) && init(generator) && validc(generator)

// bounded: proved for up to 6 points (every call site in the package passes 1 or 2, the multi-scalar
// routines are themselves claimed for up to 3 terms); for longer slices the contract is assumed
//@ func checkInitialized(points)
//@   declassify branch 2 the is-zero-value test of a Point input: uninitialised inputs are rejected loudly (exempt)
//@   declassify branch 3 the is-zero-value test of a Point input (exempt)
//@   leak none
//@   mode ring
//@   entrysplit len(points) in 0..7
//@   requires [bounded] len(points) < 7
//@   panics exists i in 0..len(points): !init(points[i])
//@   assigns nothing

// ---------------------------------------------------------------- constructors, copies

//@ func (*projP2).Zero(v)
//@   leak none
//@   gensures result == v && pt(v) == gid() && gvalid(v)
//@   mode ring
//@   assigns *v
//@   ensures [receiver] result == v
//@   ensures [value] iszero(v.X) && isone(v.Y) && isone(v.Z)

//@ func (*projCached).Zero(v)
//@   leak none
//@   gensures result == v && pt(v) == gid() && gvalid(v)
//@   mode ring
//@   assigns *v
//@   ensures [receiver] result == v
//@   ensures [value] isone(v.YplusX) && isone(v.YminusX) && isone(v.Z) && iszero(v.T2d)

//@ func (*affineCached).Zero(v)
//@   leak none
//@   gensures result == v && pt(v) == gid() && gvalid(v)
//@   mode ring
//@   assigns *v
//@   ensures [receiver] result == v
//@   ensures [value] isone(v.YplusX) && isone(v.YminusX) && iszero(v.T2d)

//@ func (*Point).Set(v, u)
//@   leak none
//@   gensures result == v && samepoint(v, u)
//@   mode ring
//@   assigns *v
//@   ensures [receiver] result == v
//@   ensures [copy] samepoint(v, u)

//@ func NewIdentityPoint()
//@   leak none
//@   gensures fresh(result) && samepoint(result, identity)
//@   mode ring
//@   assigns nothing
//@   ensures [fresh] fresh(result)
//@   ensures [copy] samepoint(result, identity)

//@ func NewGeneratorPoint()
//@   leak none
//@   gensures fresh(result) && samepoint(result, generator)
//@   mode ring
//@   assigns nothing
//@   ensures [fresh] fresh(result)
//@   ensures [copy] samepoint(result, generator)

// validity of the auxiliary representations (all conditional: a caller that does not need it proves nothing)
//   projP2 (X:Y:Z), x = X/Z, y = Y/Z
//@ define validP2(p) = !cong(lv(p.Z), 0, P) && cong((lv(p.Y)*lv(p.Y) - lv(p.X)*lv(p.X)) * lv(p.Z)*lv(p.Z), lv(p.Z)*lv(p.Z)*lv(p.Z)*lv(p.Z) + lv(d)*lv(p.X)*lv(p.X)*lv(p.Y)*lv(p.Y), P)
//   projP1xP1 ((X:Z),(Y:T)), x = X/Z, y = Y/T
//@ define validP1(p) = !cong(lv(p.Z), 0, P) && !cong(lv(p.T), 0, P) && cong(lv(p.Y)*lv(p.Y)*lv(p.Z)*lv(p.Z) - lv(p.X)*lv(p.X)*lv(p.T)*lv(p.T), lv(p.Z)*lv(p.Z)*lv(p.T)*lv(p.T) + lv(d)*lv(p.X)*lv(p.X)*lv(p.Y)*lv(p.Y), P)

// ---------------------------------------------------------------- conversions (definition contracts)

//@ func (*projP2).FromP1xP1(v, p)
//@   leak none
//@   grequires gvalid(p)
//@   gensures result == v && pt(v) == pt(p) && gvalid(v)
//@   mode ring
//@   requires [inv] inv(p.X) && inv(p.Y) && inv(p.Z) && inv(p.T)
//@   assigns *v
//@   ensures [receiver] result == v
//@   ensures [inv] tight(v.X) && tight(v.Y) && tight(v.Z)
//@   ensures [X] cong(lv(v.X), lv(p.X) * lv(p.T), P)
//@   ensures [Y] cong(lv(v.Y), lv(p.Y) * lv(p.Z), P)
//@   ensures [Z] cong(lv(v.Z), lv(p.Z) * lv(p.T), P)
//@   ensures [valid] validP1(p) ==> validP2(v)

//@ func (*projP2).FromP3(v, p)
//@   leak none
//@   grequires gvalid(p)
//@   gensures result == v && pt(v) == pt(p) && gvalid(v)
//@   mode ring
//@   assigns *v
//@   ensures [receiver] result == v
//@   ensures [copy] eqlimbs(v.X, p.x) && eqlimbs(v.Y, p.y) && eqlimbs(v.Z, p.z)
//@   ensures [valid] validc(p) ==> validP2(v)

//@ func (*Point).fromP1xP1(v, p)
//@   leak none
//@   grequires gvalid(p)
//@   gensures result == v && pt(v) == pt(p) && gvalid(v)
//@   mode ring
//@   requires [inv] inv(p.X) && inv(p.Y) && inv(p.Z) && inv(p.T)
//@   assigns *v
//@   ensures [receiver] result == v
//@   ensures [inv] tight(v.x) && tight(v.y) && tight(v.z) && tight(v.t)
//@   ensures [x] cong(lv(v.x), lv(p.X) * lv(p.T), P)
//@   ensures [y] cong(lv(v.y), lv(p.Y) * lv(p.Z), P)
//@   ensures [z] cong(lv(v.z), lv(p.Z) * lv(p.T), P)
//@   ensures [t] cong(lv(v.t), lv(p.X) * lv(p.Y), P)
//@   ensures [valid] validP1(p) ==> validc(v)

//@ func (*Point).fromP2(v, p)
//@   leak none
//@   grequires gvalid(p)
//@   gensures result == v && pt(v) == pt(p) && gvalid(v)
//@   mode ring
//@   requires [inv] inv(p.X) && inv(p.Y) && inv(p.Z)
//@   assigns *v
//@   ensures [receiver] result == v
//@   ensures [inv] tight(v.x) && tight(v.y) && tight(v.z) && tight(v.t)
//@   ensures [x] cong(lv(v.x), lv(p.X) * lv(p.Z), P)
//@   ensures [y] cong(lv(v.y), lv(p.Y) * lv(p.Z), P)
//@   ensures [z] cong(lv(v.z), lv(p.Z) * lv(p.Z), P)
//@   ensures [t] cong(lv(v.t), lv(p.X) * lv(p.Y), P)
//@   ensures [valid] validP2(p) ==> validc(v)

//@ func (*projCached).FromP3(v, p)
//@   leak none
//@   grequires gvalid(p)
//@   gensures result == v && pt(v) == pt(p) && gvalid(v)
//@   mode ring
//@   requires [inv] elems(p)
//@   assigns *v
//@   ensures [receiver] result == v
//@   ensures [inv] tight(v.YplusX) && tight(v.YminusX) && inv(v.Z) && tight(v.T2d)
//@   ensures [YplusX] cong(lv(v.YplusX), lv(p.y) + lv(p.x), P)
//@   ensures [YminusX] cong(lv(v.YminusX), lv(p.y) - lv(p.x), P)
//@   ensures [Z] eqlimbs(v.Z, p.z)
//@   ensures [T2d] cong(lv(v.T2d), 2 * lv(d) * lv(p.t), P)

//@ func (*affineCached).FromP3(v, p)
//@   leak none
//@   grequires gvalid(p)
//@   gensures result == v && pt(v) == pt(p) && gvalid(v)
//@   mode ring
//@   requires [inv] elems(p)
//@   assigns *v
//@   ensures [receiver] result == v
//@   ensures [inv] tight(v.YplusX) && tight(v.YminusX) && tight(v.T2d)
//@   ensures [YplusX] cong(lv(v.YplusX), (lv(p.y) + lv(p.x)) * finv(lv(p.z)), P)
//@   ensures [YminusX] cong(lv(v.YminusX), (lv(p.y) - lv(p.x)) * finv(lv(p.z)), P)
//@   ensures [T2d] cong(lv(v.T2d), 2 * lv(d) * lv(p.t) * finv(lv(p.z)), P)

// ---------------------------------------------------------------- addition / doubling in P1xP1 (definition contracts)

//@ func (*projP1xP1).Add(v, p, q)
//@   leak none
//@   grequires gvalid(p) && gvalid(q)
//@   gensures result == v && pt(v) == gadd(pt(p), pt(q)) && gvalid(v)
//@   mode ring
//@   requires [inv] elems(p) && inv(q.YplusX) && inv(q.YminusX) && inv(q.Z) && inv(q.T2d)
//@   assigns *v
//@   ensures [receiver] result == v
//@   ensures [inv] tight(v.X) && tight(v.Y) && tight(v.Z) && tight(v.T)
//@   ensures [X] cong(lv(v.X), (lv(p.y) + lv(p.x)) * lv(q.YplusX) - (lv(p.y) - lv(p.x)) * lv(q.YminusX), P)
//@   ensures [Y] cong(lv(v.Y), (lv(p.y) + lv(p.x)) * lv(q.YplusX) + (lv(p.y) - lv(p.x)) * lv(q.YminusX), P)
//@   ensures [Z] cong(lv(v.Z), 2 * lv(p.z) * lv(q.Z) + lv(p.t) * lv(q.T2d), P)
//@   ensures [T] cong(lv(v.T), 2 * lv(p.z) * lv(q.Z) - lv(p.t) * lv(q.T2d), P)

//@ func (*projP1xP1).Sub(v, p, q)
//@   leak none
//@   grequires gvalid(p) && gvalid(q)
//@   gensures result == v && pt(v) == gadd(pt(p), gneg(pt(q))) && gvalid(v)
//@   mode ring
//@   requires [inv] elems(p) && inv(q.YplusX) && inv(q.YminusX) && inv(q.Z) && inv(q.T2d)
//@   assigns *v
//@   ensures [receiver] result == v
//@   ensures [inv] tight(v.X) && tight(v.Y) && tight(v.Z) && tight(v.T)
//@   ensures [X] cong(lv(v.X), (lv(p.y) + lv(p.x)) * lv(q.YminusX) - (lv(p.y) - lv(p.x)) * lv(q.YplusX), P)
//@   ensures [Y] cong(lv(v.Y), (lv(p.y) + lv(p.x)) * lv(q.YminusX) + (lv(p.y) - lv(p.x)) * lv(q.YplusX), P)
//@   ensures [Z] cong(lv(v.Z), 2 * lv(p.z) * lv(q.Z) - lv(p.t) * lv(q.T2d), P)
//@   ensures [T] cong(lv(v.T), 2 * lv(p.z) * lv(q.Z) + lv(p.t) * lv(q.T2d), P)

//@ func (*projP1xP1).AddAffine(v, p, q)
//@   leak none
//@   grequires gvalid(p) && gvalid(q)
//@   gensures result == v && pt(v) == gadd(pt(p), pt(q)) && gvalid(v)
//@   mode ring
//@   requires [inv] elems(p) && inv(q.YplusX) && inv(q.YminusX) && inv(q.T2d)
//@   assigns *v
//@   ensures [receiver] result == v
//@   ensures [inv] tight(v.X) && tight(v.Y) && tight(v.Z) && tight(v.T)
//@   ensures [X] cong(lv(v.X), (lv(p.y) + lv(p.x)) * lv(q.YplusX) - (lv(p.y) - lv(p.x)) * lv(q.YminusX), P)
//@   ensures [Y] cong(lv(v.Y), (lv(p.y) + lv(p.x)) * lv(q.YplusX) + (lv(p.y) - lv(p.x)) * lv(q.YminusX), P)
//@   ensures [Z] cong(lv(v.Z), 2 * lv(p.z) + lv(p.t) * lv(q.T2d), P)
//@   ensures [T] cong(lv(v.T), 2 * lv(p.z) - lv(p.t) * lv(q.T2d), P)

//@ func (*projP1xP1).SubAffine(v, p, q)
//@   leak none
//@   grequires gvalid(p) && gvalid(q)
//@   gensures result == v && pt(v) == gadd(pt(p), gneg(pt(q))) && gvalid(v)
//@   mode ring
//@   requires [inv] elems(p) && inv(q.YplusX) && inv(q.YminusX) && inv(q.T2d)
//@   assigns *v
//@   ensures [receiver] result == v
//@   ensures [inv] tight(v.X) && tight(v.Y) && tight(v.Z) && tight(v.T)
//@   ensures [X] cong(lv(v.X), (lv(p.y) + lv(p.x)) * lv(q.YminusX) - (lv(p.y) - lv(p.x)) * lv(q.YplusX), P)
//@   ensures [Y] cong(lv(v.Y), (lv(p.y) + lv(p.x)) * lv(q.YminusX) + (lv(p.y) - lv(p.x)) * lv(q.YplusX), P)
//@   ensures [Z] cong(lv(v.Z), 2 * lv(p.z) - lv(p.t) * lv(q.T2d), P)
//@   ensures [T] cong(lv(v.T), 2 * lv(p.z) + lv(p.t) * lv(q.T2d), P)

// M4 for P = Q in P2 coordinates: the denominators 1 +- d x^2 y^2 of the doubling do not vanish
//@ define m4dbl(p) = validP2(p) ==> (!cong(lv(p.Z)*lv(p.Z)*lv(p.Z)*lv(p.Z) + lv(d)*lv(p.X)*lv(p.X)*lv(p.Y)*lv(p.Y), 0, P) && !cong(lv(p.Z)*lv(p.Z)*lv(p.Z)*lv(p.Z) - lv(d)*lv(p.X)*lv(p.X)*lv(p.Y)*lv(p.Y), 0, P))

//@ func (*projP1xP1).Double(v, p)
//@   leak none
//@   grequires gvalid(p)
//@   gensures result == v && pt(v) == gadd(pt(p), pt(p)) && gvalid(v)
//@   mode ring
//@   requires [inv] inv(p.X) && inv(p.Y) && inv(p.Z)
//@   assume [M4] m4dbl(p)
//@   assigns *v
//@   ensures [receiver] result == v
//@   ensures [inv] tight(v.X) && tight(v.Y) && tight(v.Z) && tight(v.T)
//@   ensures [X] cong(lv(v.X), 2 * lv(p.X) * lv(p.Y), P)
//@   ensures [Y] cong(lv(v.Y), lv(p.Y) * lv(p.Y) + lv(p.X) * lv(p.X), P)
//@   ensures [Z] cong(lv(v.Z), lv(p.Y) * lv(p.Y) - lv(p.X) * lv(p.X), P)
//@   ensures [T] cong(lv(v.T), 2 * lv(p.Z) * lv(p.Z) - lv(p.Y) * lv(p.Y) + lv(p.X) * lv(p.X), P)
//@   ensures [valid] validP2(p) ==> validP1(v)
//@   ensures [lawx] validP2(p) ==> cong(lv(v.X) * (lv(p.Z)*lv(p.Z)*lv(p.Z)*lv(p.Z) + lv(d)*lv(p.X)*lv(p.X)*lv(p.Y)*lv(p.Y)), lv(v.Z) * 2*lv(p.X)*lv(p.Y)*lv(p.Z)*lv(p.Z), P)
//@   ensures [lawy] validP2(p) ==> cong(lv(v.Y) * (lv(p.Z)*lv(p.Z)*lv(p.Z)*lv(p.Z) - lv(d)*lv(p.X)*lv(p.X)*lv(p.Y)*lv(p.Y)), lv(v.T) * (lv(p.Y)*lv(p.Y) + lv(p.X)*lv(p.X))*lv(p.Z)*lv(p.Z), P)

// ---------------------------------------------------------------- the group law on Points (property C02)
//
// M4 (Bernstein-Birkner-Joye-Lange-Peters 2008, Thm 3.3; d is a non-square in GF(p)): for two points on
// the curve the denominators of the addition law do not vanish.  It is mathematics about the curve, not
// about this code, and is assumed (listed as a K3 instance in the evidence).
//@ define den1(p, q) = lv(p.z) * lv(q.z) + lv(d) * lv(p.t) * lv(q.t)
//@ define den2(p, q) = lv(p.z) * lv(q.z) - lv(d) * lv(p.t) * lv(q.t)
//@ define m4(p, q) = (validc(p) && validc(q)) ==> (!cong(den1(p, q), 0, P) && !cong(den2(p, q), 0, P))
// the projective form of  x3 = (x1y2 + x2y1)/(1 + d x1x2y1y2),  y3 = (y1y2 + x1x2)/(1 - d x1x2y1y2):
//@ define lawx(v, p, q) = cong(lv(v.x) * den1(p, q), lv(v.z) * (lv(p.x) * lv(q.y) + lv(q.x) * lv(p.y)), P)
//@ define lawy(v, p, q) = cong(lv(v.y) * den2(p, q), lv(v.z) * (lv(p.y) * lv(q.y) + lv(p.x) * lv(q.x)), P)
// subtraction is addition of (-x2, y2):
//@ define slawx(v, p, q) = cong(lv(v.x) * den2(p, q), lv(v.z) * (lv(p.x) * lv(q.y) - lv(q.x) * lv(p.y)), P)
//@ define slawy(v, p, q) = cong(lv(v.y) * den1(p, q), lv(v.z) * (lv(p.y) * lv(q.y) - lv(p.x) * lv(q.x)), P)

//@ func (*Point).Add(v, p, q)
//@   leak none
//@   grequires wf(p) && wf(q)
//@   gensures result == v && pt(v) == gadd(pt(p), pt(q)) && gvalid(v)
//@   mode ring
//@   requires [wf] wf(p) && wf(q)
//@   assume [M4] m4(p, q)
//@   use validinit(v)
//@   panics !init(p) || !init(q)
//@   assigns *v
//@   ensures [receiver] result == v
//@   ensures [elems] elems(v)
//@   ensures [zne] zne(v)
//@   ensures [oncurve] oncurve(v)
//@   ensures [txy] txy(v)
//@   ensures [init] init(v)
//@   ensures [lawx] lawx(v, p, q)
//@   ensures [lawy] lawy(v, p, q)

//@ func (*Point).Subtract(v, p, q)
//@   leak none
//@   grequires wf(p) && wf(q)
//@   gensures result == v && pt(v) == gadd(pt(p), gneg(pt(q))) && gvalid(v)
//@   mode ring
//@   requires [wf] wf(p) && wf(q)
//@   assume [M4] m4(p, q)
//@   use validinit(v)
//@   panics !init(p) || !init(q)
//@   assigns *v
//@   ensures [receiver] result == v
//@   ensures [elems] elems(v)
//@   ensures [zne] zne(v)
//@   ensures [oncurve] oncurve(v)
//@   ensures [txy] txy(v)
//@   ensures [init] init(v)
//@   ensures [lawx] slawx(v, p, q)
//@   ensures [lawy] slawy(v, p, q)

//@ func (*Point).Negate(v, p)
//@   leak none
//@   grequires wf(p)
//@   gensures result == v && pt(v) == gneg(pt(p)) && gvalid(v)
//@   mode ring
//@   requires [wf] wf(p)
//@   use validinit(v)
//@   panics !init(p)
//@   assigns *v
//@   ensures [receiver] result == v
//@   ensures [elems] elems(v)
//@   ensures [zne] zne(v)
//@   ensures [oncurve] oncurve(v)
//@   ensures [txy] txy(v)
//@   ensures [init] init(v)
//@   ensures [x] cong(lv(v.x), 0 - lv(p.x), P)
//@   ensures [y] cong(lv(v.y), lv(p.y), P)
//@   ensures [z] cong(lv(v.z), lv(p.z), P)
//@   ensures [t] cong(lv(v.t), 0 - lv(p.t), P)

//@ func (*Point).Equal(v, u)
//@   leak none
//@   mode ring
//@   requires [wf] wf(v) && wf(u)
//@   panics !init(v) || !init(u)
//@   assigns nothing
//@   ensures [bit] 0 <= result && result <= 1
//@   ensures [iff] result == 1 <==> (cong(lv(v.x) * lv(u.z), lv(u.x) * lv(v.z), P) && cong(lv(v.y) * lv(u.z), lv(u.y) * lv(v.z), P))

// ---------------------------------------------------------------- constant-time selection helpers

//@ func (*projCached).Select(v, a, b, cond)
//@   leak none
//@   grequires (cond == 0 || cond == 1) && gvalid(a) && gvalid(b)
//@   gensures result == v && pt(v) == gsel(cond == 1, pt(a), pt(b)) && gvalid(v)
//@   mode ring
//@   requires [cond] cond == 0 || cond == 1
//@   casesplit cond in 0..2
//@   assigns *v
//@   ensures [receiver] result == v
//@   ensures [one] cond == 1 ==> eqlimbs(v.YplusX, a.YplusX) && eqlimbs(v.YminusX, a.YminusX) && eqlimbs(v.Z, a.Z) && eqlimbs(v.T2d, a.T2d)
//@   ensures [zero] cond == 0 ==> eqlimbs(v.YplusX, b.YplusX) && eqlimbs(v.YminusX, b.YminusX) && eqlimbs(v.Z, b.Z) && eqlimbs(v.T2d, b.T2d)

//@ func (*affineCached).Select(v, a, b, cond)
//@   leak none
//@   grequires (cond == 0 || cond == 1) && gvalid(a) && gvalid(b)
//@   gensures result == v && pt(v) == gsel(cond == 1, pt(a), pt(b)) && gvalid(v)
//@   mode ring
//@   requires [cond] cond == 0 || cond == 1
//@   casesplit cond in 0..2
//@   assigns *v
//@   ensures [receiver] result == v
//@   ensures [one] cond == 1 ==> eqlimbs(v.YplusX, a.YplusX) && eqlimbs(v.YminusX, a.YminusX) && eqlimbs(v.T2d, a.T2d)
//@   ensures [zero] cond == 0 ==> eqlimbs(v.YplusX, b.YplusX) && eqlimbs(v.YminusX, b.YminusX) && eqlimbs(v.T2d, b.T2d)

//@ func (*projCached).CondNeg(v, cond)
//@   leak none
//@   grequires (cond == 0 || cond == 1) && gvalid(v)
//@   gensures result == v && pt(v) == smul(1 - 2 * cond, pt(old(v))) && gvalid(v)
//@   mode ring
//@   requires [cond] cond == 0 || cond == 1
//@   requires [inv] inv(v.YplusX) && inv(v.YminusX) && inv(v.Z) && inv(v.T2d)
//@   casesplit cond in 0..2
//@   assigns *v
//@   ensures [receiver] result == v
//@   ensures [inv] inv(v.YplusX) && inv(v.YminusX) && inv(v.Z) && inv(v.T2d)
//@   ensures [one] cond == 1 ==> eqlimbs(v.YplusX, old(v).YminusX) && eqlimbs(v.YminusX, old(v).YplusX) && cong(lv(v.T2d), 0 - lv(old(v).T2d), P)
//@   ensures [zero] cond == 0 ==> eqlimbs(v.YplusX, old(v).YplusX) && eqlimbs(v.YminusX, old(v).YminusX) && eqlimbs(v.T2d, old(v).T2d)
//@   ensures [Z] eqlimbs(v.Z, old(v).Z)

//@ func (*affineCached).CondNeg(v, cond)
//@   leak none
//@   grequires (cond == 0 || cond == 1) && gvalid(v)
//@   gensures result == v && pt(v) == smul(1 - 2 * cond, pt(old(v))) && gvalid(v)
//@   mode ring
//@   requires [cond] cond == 0 || cond == 1
//@   requires [inv] inv(v.YplusX) && inv(v.YminusX) && inv(v.T2d)
//@   casesplit cond in 0..2
//@   assigns *v
//@   ensures [receiver] result == v
//@   ensures [inv] inv(v.YplusX) && inv(v.YminusX) && inv(v.T2d)
//@   ensures [one] cond == 1 ==> eqlimbs(v.YplusX, old(v).YminusX) && eqlimbs(v.YminusX, old(v).YplusX) && cong(lv(v.T2d), 0 - lv(old(v).T2d), P)
//@   ensures [zero] cond == 0 ==> eqlimbs(v.YplusX, old(v).YplusX) && eqlimbs(v.YminusX, old(v).YminusX) && eqlimbs(v.T2d, old(v).T2d)

// ---------------------------------------------------------------- encoding (property C05, C04)

//@ func copyFieldElement(buf, v)
//@   leak none
//@   mode ring
//@   requires [inv] inv(v)
//@   assigns *buf
//@   ensures [slice] result == sliceof(buf, 0, 32)
//@   ensures [value] le(buf, 32) == lv(v) % P

// affine coordinates of a valid point, as canonical integers in [0,P)
//@ define affx(p) = (lv(p.x) * finv(lv(p.z))) % P
//@ define affy(p) = (lv(p.y) * finv(lv(p.z))) % P

//@ func (*Point).bytes(v, buf)
//@   leak none
//@   mode ring
//@   requires [wf] wf(v)
//@   panics !init(v)
//@   assigns *buf
//@   ensures [slice] result == sliceof(buf, 0, 32)
//@   ensures [value] le(buf, 32) == affy(v) + 2^255 * (affx(v) % 2)

//@ func (*Point).Bytes(v)
//@   leak none
//@   mode ring
//@   requires [wf] wf(v)
//@   panics !init(v)
//@   assigns nothing
//@   ensures [fresh] fresh(result)
//@   ensures [len] len(result) == 32
//@   ensures [value] le(result, 32) == affy(v) + 2^255 * (affx(v) % 2)

// ---------------------------------------------------------------- extended coordinates (property C13)

//@ define curveeq(X, Y, Z, T) = cong(lv(Y)*lv(Y) - lv(X)*lv(X), lv(Z)*lv(Z) + lv(d)*lv(T)*lv(T), P)
//@ define txyeq(X, Y, Z, T) = cong(lv(X)*lv(Y), lv(Z)*lv(T), P)

//@ func isOnCurve(X, Y, Z, T)
//@   declassify branch 1 validity decision of the SetExtendedCoordinates decoder (exempt)
//@   declassify branch 2 validity decision of the SetExtendedCoordinates decoder (exempt)
//@   leak none
//@   mode ring
//@   requires [inv] inv(X) && inv(Y) && inv(Z) && inv(T)
//@   assigns nothing
//@   ensures [iff] result <==> (!cong(lv(Z), 0, P) && curveeq(X, Y, Z, T) && txyeq(X, Y, Z, T))

//@ func (*Point).SetExtendedCoordinates(v, X, Y, Z, T)
//@   declassify branch 1 validity decision of the decoder (exempt)
//@   leak none
//@   mode ring
//@   requires [inv] inv(X) && inv(Y) && inv(Z) && inv(T)
//@   use validinit(v)
//@   assigns *v
//@   ensures [accept-iff] isnil(result1) <==> (!cong(lv(Z), 0, P) && curveeq(X, Y, Z, T) && txyeq(X, Y, Z, T))
//@   ensures [ok] isnil(result1) ==> result0 == v && elems(v) && cong(lv(v.x), lv(X), P) && cong(lv(v.y), lv(Y), P) && cong(lv(v.z), lv(Z), P) && cong(lv(v.t), lv(T), P)
//@   ensures [valid] isnil(result1) ==> validc(v) && init(v)
//@   ensures [atomic] !isnil(result1) ==> isnil(result0) && unchanged(*v)

//@ func (*Point).extendedCoordinates(v, e)
//@   leak none
//@   mode ring
//@   requires [wf] wf(v)
//@   panics !init(v)
//@   assigns *e
//@   ensures [ptrs] result0 == e[0] && result1 == e[1] && result2 == e[2] && result3 == e[3]
//@   ensures [copy] eqlimbs(e[0], v.x) && eqlimbs(e[1], v.y) && eqlimbs(e[2], v.z) && eqlimbs(e[3], v.t)

//@ func (*Point).ExtendedCoordinates(v)
//@   leak none
//@   mode ring
//@   requires [wf] wf(v)
//@   panics !init(v)
//@   assigns nothing
//@   ensures [fresh] fresh(result0) && fresh(result1) && fresh(result2) && fresh(result3)
//@   ensures [distinct] result0 != result1 && result0 != result2 && result0 != result3 && result1 != result2 && result1 != result3 && result2 != result3
//@   ensures [copy] eqlimbs(result0, v.x) && eqlimbs(result1, v.y) && eqlimbs(result2, v.z) && eqlimbs(result3, v.t)

// ---------------------------------------------------------------- Montgomery u-coordinate (property C17)

//@ define montu(p) = ((1 + lv(p.y) * finv(lv(p.z))) * finv(1 - lv(p.y) * finv(lv(p.z)))) % P

//@ func (*Point).bytesMontgomery(v, buf)
//@   leak none
//@   mode ring
//@   requires [wf] wf(v)
//@   panics !init(v)
//@   assigns *buf
//@   ensures [slice] result == sliceof(buf, 0, 32)
//@   ensures [value] le(buf, 32) == montu(v)

//@ func (*Point).BytesMontgomery(v)
//@   leak none
//@   mode ring
//@   requires [wf] wf(v)
//@   panics !init(v)
//@   assigns nothing
//@   ensures [fresh] fresh(result)
//@   ensures [len] len(result) == 32
//@   ensures [value] le(result, 32) == montu(v)

// ---------------------------------------------------------------- cofactor multiplication (validity; the value 8*P is tier G)

//@ func (*Point).MultByCofactor(v, p)
//@   leak none
//@   mode ring
//@   requires [wf] wf(p)
//@   use validinit(v)
//@   panics !init(p)
//@   assigns *v
//@   ensures [receiver] result == v
//@   ensures [elems] elems(v)
//@   ensures [valid] validc(v)
//@   ensures [init] init(v)

// ---------------------------------------------------------------- decoding (property C04)

//@ func (*Point).SetBytes(v, x)
//@   declassify branch 1 length test (the error of Element.SetBytes depends on len(x) only)
//@   declassify branch 2 validity decision of the decoder: wasSquare == 0 (exempt)
//@   leak none
//@   mode ring
//@   casesplit len(x) == 32
//@   errcases result1
//@   use validinit(v)
//@   assigns *v
//@   ensures [badlen] len(x) != 32 ==> isnil(result0) && !isnil(result1) && unchanged(*v)
//@   ensures [atomic] !isnil(result1) ==> isnil(result0) && unchanged(*v)
//@   ensures [ok] isnil(result1) ==> result0 == v && elems(v)
//@   ensures [y] isnil(result1) ==> lv(v.y) == le(x, 32) % 2^255
//@   ensures [z] isnil(result1) ==> cong(lv(v.z), 1, P)
//@   ensures [valid] isnil(result1) ==> validc(v)
//@   ensures [init] isnil(result1) ==> init(v)
//@   ensures [sign] isnil(result1) ==> (cong(lv(v.x), 0, P) || (lv(v.x) % P) % 2 == x[31] / 128)
// a rejected 32-byte input carries a certificate that y is not on the curve: with u = y^2-1, w = d*y^2+1
// (w != 0 for every y because -1/d is a non-square, M3) the code has found r with w*r^2 = sqrt(-1)*u, u != 0,
// and sqrt(-1) is a non-square (M6), so u/w is not a square.
// completeness of the decoder: a 32-byte input whose y (ghost gy) has some x-coordinate (ghost a) on the curve is
// accepted.  Needs, besides the certificate below, that sqrt(-1) is a non-square (M6b, from sqrtM1^2 = -1, which is
// ground-checked, p = 5 mod 8 and Euler's criterion): r^2 = sqrt(-1)*a^2 only for a = 0.
//@   ghost a, gy
//@   assumebody [M6b] cong(lv(xx) * lv(xx), lv(sqrtM1) * lv(a) * lv(a), P) ==> cong(lv(a), 0, P)
//@   ensures [complete] (len(x) == 32 && cong(lv(gy), le(x, 32) % 2^255, P) && cong(lv(a) * lv(a) * (lv(d) * lv(gy) * lv(gy) + 1), lv(gy) * lv(gy) - 1, P)) ==> isnil(result1)
//@   ensuresbody [reject] (len(x) == 32 && !isnil(result1) && !cong(lv(vv), 0, P)) ==> (!cong(lv(u), 0, P) && cong(lv(vv) * lv(xx) * lv(xx), lv(sqrtM1) * lv(u), P))
//@   ensuresbody [reject-w] (len(x) == 32 && !isnil(result1)) ==> cong(lv(vv), lv(d) * lv(y) * lv(y) + 1, P) && cong(lv(u), lv(y) * lv(y) - 1, P)

// ---------------------------------------------------------------- round trips (property C05), over the contracts above
// The two functions exist only under the verif tag (roundtrip_verif.go); they compose the real Bytes and SetBytes.
//@ func govcEncodeDecode(v, p)
//@   mode ring
//@   opt cvneg inv=dne
//@   atoms cong(lv(v.x) * lv(v.x), lv(old(p.x)) * finv(lv(old(p.z))) * lv(old(p.x)) * finv(lv(old(p.z))), P)
//@   atoms cong(1 + lv(d) * lv(v.y) * lv(v.y), 0, P)
//@   requires [wf] wf(p) && init(p)
//@   use validinit(v)
//@   instantiate (*Point).SetBytes a = lv(p.x) * finv(lv(p.z)), gy = lv(p.y) * finv(lv(p.z))
//@   assigns *v
//@   ensures [accepted] isnil(result1) && result0 == v
//@   ensures [valid] validc(v) && init(v) && elems(v)
//@   ensures [samey] cong(lv(v.y) * lv(old(p.z)), lv(old(p.y)) * lv(v.z), P)
//@   ensures [samex] cong(lv(v.x) * lv(old(p.z)), lv(old(p.x)) * lv(v.z), P)

//@ func govcDecodeEncode(v, x)
//@   mode ring
//@   casesplit len(x) == 32
//@   use validinit(v)
//@   assigns *v
//@   ensures [rejected] !isnil(result1) ==> isnil(result0)
//@   ensures [len] isnil(result1) ==> len(result0) == 32 && fresh(result0)
//@   ensures [y] isnil(result1) ==> le(result0, 32) % 2^255 == (le(x, 32) % 2^255) % P
//@   ensures [sign] isnil(result1) ==> (le(result0, 32) / 2^255 == x[31] / 128 || (cong(lv(v.x), 0, P) && le(result0, 32) / 2^255 == 0))
//@   ensures [samepoint] isnil(result1) ==> le(result0, 32) == affy(v) + 2^255 * (affx(v) % 2)

// ---------------------------------------------------------------- scalar field (fiat-crypto Montgomery code), tier L
//@ const L = 2^252 + 27742317777372353535851937790883648493
//@ const R = 2^256
//@ define ev4(w) = w[0] + w[1]*2^64 + w[2]*2^128 + w[3]*2^192

//@ func fiatScalarCmovznzU64(out1, arg1, arg2, arg3)
//@   leak none
//@   mode bv
//@   requires [bit] arg1 == 0 || arg1 == 1
//@   assigns *out1
//@   ensures [zero] arg1 == 0 ==> *out1 == arg2
//@   ensures [one] arg1 == 1 ==> *out1 == arg3

//@ func fiatScalarAdd(out1, arg1, arg2)
//@   leak none
//@   mode lia
//@   requires [reduced] ev4(arg1) < L && ev4(arg2) < L
//@   assigns *out1
//@   ensures [reduced] ev4(out1) < L
//@   ensures [value] ev4(out1) == (ev4(arg1) + ev4(arg2)) % L

//@ func fiatScalarSub(out1, arg1, arg2)
//@   leak none
//@   mode lia
//@   requires [reduced] ev4(arg1) < L && ev4(arg2) < L
//@   assigns *out1
//@   ensures [reduced] ev4(out1) < L
//@   ensures [value] ev4(out1) == (ev4(arg1) - ev4(arg2)) % L
//@   ensures [zero] ev4(out1) == 0 <==> ev4(arg1) == ev4(arg2)

//@ func fiatScalarOpp(out1, arg1)
//@   leak none
//@   mode lia
//@   requires [reduced] ev4(arg1) < L
//@   assigns *out1
//@   ensures [reduced] ev4(out1) < L
//@   ensures [value] ev4(out1) == (0 - ev4(arg1)) % L

//@ func fiatScalarNonzero(out1, arg1)
//@   leak none
//@   mode bv
//@   assigns *out1
//@   ensures [iff] *out1 == 0 <==> ev4(arg1) == 0

// Montgomery multiplication: the value T before the final conditional subtraction satisfies the exact equation
// T*R = a*b + q*L with the ghost quotient q assembled from the four reduction multipliers (locals x20, x66, x113, x160).
//@ func fiatScalarMul(out1, arg1, arg2)
//@   leak none
//@   mode lia
//@   opt chainposts
//@   requires [reduced] ev4(arg1) < L && ev4(arg2) < L
//@   lemma [product] ev4(arg1) * ev4(arg2) <= (L - 1) * (L - 1)
//@   assigns *out1
//@   ensuresbody [montgomery] (x173 + x175*2^64 + x177*2^128 + x179*2^192 + x181*2^256) * R == ev4(arg1) * ev4(arg2) + (x20 + x66*2^64 + x113*2^128 + x160*2^192) * L
//@   ensures [reduced] ev4(out1) < L
//@   ensures [value] congw(ev4(out1) * R, ev4(arg1) * ev4(arg2), L, (x20 + x66*2^64 + x113*2^128 + x160*2^192) - (1 - x191) * R)
//@   ensures [rinv] congw(ev4(out1), ev4(arg1) * ev4(arg2) * RINV, L, ((x20 + x66*2^64 + x113*2^128 + x160*2^192) - (1 - x191) * R) * RINV - ev4(out1) * C1)

//@ const RR = R * R % L
//@ const RINV = 4458503529701987551646482192314240623644693141688353256590997718326214331684
//@ const C1 = (R * RINV - 1) / L
//@ const C2 = (RR * RINV - R) / L

//@ func fiatScalarFromMontgomery(out1, arg1)
//@   leak none
//@   mode lia
//@   opt chainposts
//@   requires [reduced] ev4(arg1) < L
//@   assigns *out1
//@   ensuresbody [montgomery] (x78 + x80*2^64 + x82*2^128 + x84*2^192) * R == ev4(arg1) + (x2 + x18*2^64 + x42*2^128 + x66*2^192) * L
//@   ensures [reduced] ev4(out1) < L
//@   ensures [value] congw(ev4(out1) * R, ev4(arg1), L, (x2 + x18*2^64 + x42*2^128 + x66*2^192) - (1 - x94) * R)
//@   ensures [rinv] congw(ev4(out1), ev4(arg1) * RINV, L, ((x2 + x18*2^64 + x42*2^128 + x66*2^192) - (1 - x94) * R) * RINV - ev4(out1) * C1)

//@ func fiatScalarToMontgomery(out1, arg1)
//@   leak none
//@   mode lia
//@   opt chainposts
//@   requires [reduced] ev4(arg1) < L
//@   assigns *out1
//@   ensuresbody [montgomery] (x151 + x153*2^64 + x155*2^128 + x157*2^192) * R == ev4(arg1) * RR + (x19 + x59*2^64 + x99*2^128 + x139*2^192) * L
//@   ensures [reduced] ev4(out1) < L
//@   ensures [value] congw(ev4(out1) * R, ev4(arg1) * RR, L, (x19 + x59*2^64 + x99*2^128 + x139*2^192) - (1 - x167) * R)
//@   ensures [mont] congw(ev4(out1), ev4(arg1) * R, L, ev4(arg1) * C2 + ((x19 + x59*2^64 + x99*2^128 + x139*2^192) - (1 - x167) * R) * RINV - ev4(out1) * C1)

//@ func fiatScalarToBytes(out1, arg1)
//@   leak none
//@   mode bv
//@   assigns *out1
//@   ensures [value] le(out1, 32) == ev4(arg1)

//@ func fiatScalarFromBytes(out1, arg1)
//@   leak none
//@   mode bv
//@   assigns *out1
//@   ensures [value] ev4(out1) == le(arg1, 32)

// ---------------------------------------------------------------- Scalar (property C07, C08)
// A Scalar s holds ev4(s.s) = n*R mod L for the integer n in [0,L) it stands for (Montgomery form, R = 2^256,
// R*RINV = 1 mod L is a ground fact).  All statements below are congruences mod L with the R factors explicit:
//   Add:      ev4(s) = ev4(x) + ev4(y)            <=>  n_s = n_x + n_y
//   Multiply: ev4(s) = ev4(x)*ev4(y)*RINV         <=>  n_s = n_x * n_y
//   Bytes:    le(out) = ev4(s)*RINV mod L, < L     <=>  le(out) = n_s
//@ define sinv(s) = ev4(s.s) < L
//@ globalinv [L:rinv] R * RINV % L == 1
//@ globalinv [L:two168] scalarTwo168.s[0] == 0x5b8ab432eac74798 && scalarTwo168.s[1] == 0x38afddd6de59d5d7 && scalarTwo168.s[2] == 0xa2c131b399411b7c && scalarTwo168.s[3] == 0x6329a7ed9ce5a30
//@ globalinv [L:two168v] 0x5b8ab432eac74798 + 0x38afddd6de59d5d7 * 2^64 + 0xa2c131b399411b7c * 2^128 + 0x6329a7ed9ce5a30 * 2^192 == 2^168 * R % L
//@ globalinv [L:two336] scalarTwo336.s[0] == 0xbd3d108e2b35ecc5 && scalarTwo336.s[1] == 0x5c3a3718bdf9c90b && scalarTwo336.s[2] == 0x63aa97a331b4f2ee && scalarTwo336.s[3] == 0x3d217f5be65cb5c
//@ globalinv [L:two336v] 0xbd3d108e2b35ecc5 + 0x5c3a3718bdf9c90b * 2^64 + 0x63aa97a331b4f2ee * 2^128 + 0x3d217f5be65cb5c * 2^192 == 2^336 * R % L
//@ globalinv [L:minusone] forall i in 0..32: scalarMinusOneBytes[i] == ((L - 1) >> (8 * i)) % 256

//@ func NewScalar()
//@   leak none
//@   mode lia
//@   assigns nothing
//@   ensures [fresh] fresh(result)
//@   ensures [zero] ev4(result.s) == 0

//@ func (*Scalar).Set(s, x)
//@   sensures result == s && eqlimbs(s, x)
//@   leak none
//@   mode lia
//@   assigns *s
//@   ensures [receiver] result == s
//@   ensures [copy] s.s[0] == x.s[0] && s.s[1] == x.s[1] && s.s[2] == x.s[2] && s.s[3] == x.s[3]

//@ func (*Scalar).Add(s, x, y)
//@   leak none
//@   mode lia
//@   requires [reduced] sinv(x) && sinv(y)
//@   assigns *s
//@   ensures [receiver] result == s
//@   ensures [reduced] sinv(s)
//@   ensures [value] ev4(s.s) == (ev4(x.s) + ev4(y.s)) % L

//@ func (*Scalar).Subtract(s, x, y)
//@   leak none
//@   mode lia
//@   requires [reduced] sinv(x) && sinv(y)
//@   assigns *s
//@   ensures [receiver] result == s
//@   ensures [reduced] sinv(s)
//@   ensures [value] ev4(s.s) == (ev4(x.s) - ev4(y.s)) % L

//@ func (*Scalar).Negate(s, x)
//@   leak none
//@   mode lia
//@   requires [reduced] sinv(x)
//@   assigns *s
//@   ensures [receiver] result == s
//@   ensures [reduced] sinv(s)
//@   ensures [value] ev4(s.s) == (0 - ev4(x.s)) % L

//@ func (*Scalar).Multiply(s, x, y)
//@   sensures result == s && cong(sval(s), sval(x) * sval(y), L)
//@   leak none
//@   mode lia
//@   requires [reduced] sinv(x) && sinv(y)
//@   assigns *s
//@   ensures [receiver] result == s
//@   ensures [reduced] sinv(s)
//@   ensures [value] cong(ev4(s.s), ev4(x.s) * ev4(y.s) * RINV, L)

//@ func (*Scalar).MultiplyAdd(s, x, y, z)
//@   leak none
//@   mode lia
//@   requires [reduced] sinv(x) && sinv(y) && sinv(z)
//@   assigns *s
//@   ensures [receiver] result == s
//@   ensures [reduced] sinv(s)
//@   ensures [value] cong(ev4(s.s), ev4(x.s) * ev4(y.s) * RINV + ev4(z.s), L)

//@ func (*Scalar).bytes(s, out)
//@   leak none
//@   mode lia
//@   requires [reduced] sinv(s)
//@   assigns *out
//@   ensures [slice] result == sliceof(out, 0, 32)
//@   ensures [canonical] le(out, 32) < L
//@   ensures [value] cong(le(out, 32), ev4(s.s) * RINV, L)

//@ func (*Scalar).Bytes(s)
//@   leak none
//@   mode lia
//@   requires [reduced] sinv(s)
//@   assigns nothing
//@   ensures [fresh] fresh(result)
//@   ensures [len] len(result) == 32
//@   ensures [canonical] le(result, 32) < L
//@   ensures [value] cong(le(result, 32), ev4(s.s) * RINV, L)

//@ func (*Scalar).Equal(s, t)
//@   leak none
//@   mode bv
//@   requires [reduced] sinv(s) && sinv(t)
//@   assigns nothing
//@   ensures [bit] 0 <= result && result <= 1
//@   ensures [iff] result == 1 <==> ev4(s.s) == ev4(t.s)

//@ func (*Scalar).setShortBytes(s, x)
//@   leak none
//@   mode lia
//@   requires [short] len(x) < 32
//@   entrysplit len(x) in 0..32
//@   assigns *s
//@   ensures [receiver] result == s
//@   ensures [reduced] sinv(s)
//@   ensures [value] cong(ev4(s.s), le(x, len(x)) * R, L)

//@ func (*Scalar).SetUniformBytes(s, x)
//@   leak none
//@   mode lia
//@   casesplit len(x) == 64
//@   assigns *s
//@   ensures [badlen] len(x) != 64 ==> isnil(result0) && !isnil(result1) && unchanged(*s)
//@   ensures [ok] len(x) == 64 ==> result0 == s && isnil(result1) && sinv(s)
//@   ensures [value] len(x) == 64 ==> cong(ev4(s.s), le(x, 64) * R, L)

//@ func isReduced(s)
//@   leak vartime validity decision of the SetCanonicalBytes decoder (exempt)
//@   mode lia
//@   assigns nothing
//@   ensures [iff] result <==> (len(s) == 32 && le(s, 32) < L)

//@ func (*Scalar).SetCanonicalBytes(s, x)
//@   declassify branch 2 validity decision of the decoder: isReduced (exempt)
//@   declassify call 1 isReduced is the decoder's validity decision (exempt)
//@   leak none
//@   mode lia
//@   casesplit len(x) == 32
//@   assigns *s
//@   ensures [accept-iff] isnil(result1) <==> (len(x) == 32 && le(x, 32) < L)
//@   ensures [ok] isnil(result1) ==> result0 == s && sinv(s) && cong(ev4(s.s), le(x, 32) * R, L)
//@   ensures [atomic] !isnil(result1) ==> isnil(result0) && unchanged(*s)

// RFC 8032 5.1.5: clear the low three bits, clear bit 255, set bit 254
//@ define clamp(n) = n % 2^254 - n % 8 + 2^254

//@ func (*Scalar).SetBytesWithClamping(s, x)
//@   leak none
//@   mode lia
//@   casesplit len(x) == 32
//@   assigns *s
//@   ensures [badlen] len(x) != 32 ==> isnil(result0) && !isnil(result1) && unchanged(*s)
//@   ensures [ok] len(x) == 32 ==> result0 == s && isnil(result1) && sinv(s)
//@   ensures [value] len(x) == 32 ==> cong(ev4(s.s), clamp(le(x, 32)) * R, L)

//@ func (*Scalar).signedRadix16(s)
//@   declassify branch 1 guards a panic that is proved unreachable (obligation signedRadix16#nopanic under C01)
//@   leak none
//@   mode lia
//@   requires [reduced] sinv(s)
//@   assigns nothing
//@   ensures [range] forall i in 0..63: -8 <= result[i] && result[i] <= 7
//@   ensures [top] 0 <= result[63] && result[63] <= 8
//@   ensures [canonical] (sum i in 0..64: result[i] * 16^i) < L && 0 <= (sum i in 0..64: result[i] * 16^i)
//@   ensures [value] cong(sum i in 0..64: result[i] * 16^i, ev4(s.s) * RINV, L)

// ================================================================ tier G: the curve group
//
// `pt(x)` is the curve point a (valid) representation stands for; gadd/gneg/smul/gid/gbase are the group
// operations (M5: E(GF(p)) with the Edwards law is an abelian group).  The `grequires/gensures` views of the
// tier-F primitives below are the LAW bridges: their polynomial content (the formulas implement the projective
// Edwards law and preserve validity) is what the tier-F contracts above prove.

//@ define isTable8(t, g) = forall k in 0..8: (pt(t.points[k]) == smul(k + 1, g) && gvalid(t.points[k]))
//@ define isNaf5(t, g) = forall k in 0..8: (pt(t.points[k]) == smul(2 * k + 1, g) && gvalid(t.points[k]))
//@ define isNaf8(t, g) = forall k in 0..64: (pt(t.points[k]) == smul(2 * k + 1, g) && gvalid(t.points[k]))
//@ define isBase(T) = forall i in 0..32: isTable8(T[i], smul(256 ^ i, gbase()))

// ---------------------------------------------------------------- lookup tables

//@ func (*projLookupTable).FromP3(v, q)
//@   leak none
//@   mode group
//@   requires [valid] gvalid(q)
//@   assigns *v
//@   ensures [table] isTable8(v, pt(q))

//@ func (*affineLookupTable).FromP3(v, q)
//@   leak none
//@   mode group
//@   requires [valid] gvalid(q)
//@   assigns *v
//@   ensures [table] isTable8(v, pt(q))

//@ func (*nafLookupTable5).FromP3(v, q)
//@   leak vartime operation named VarTime or used only by them (exempt)
//@   mode group
//@   requires [valid] gvalid(q)
//@   assigns *v
//@   ensures [table] isNaf5(v, pt(q))

//@ func (*nafLookupTable8).FromP3(v, q)
//@   leak vartime operation named VarTime or used only by them (exempt)
//@   mode group
//@   requires [valid] gvalid(q)
//@   assigns *v
//@   ensures [table] isNaf8(v, pt(q))

//@ define isTable8self(t) = forall k in 0..8: (pt(t.points[k]) == smul(k + 1, pt(t.points[0])) && gvalid(t.points[k]))
//@ define isNaf5self(t) = forall k in 0..8: (pt(t.points[k]) == smul(2 * k + 1, pt(t.points[0])) && gvalid(t.points[k]))
//@ define isNaf8self(t) = forall k in 0..64: (pt(t.points[k]) == smul(2 * k + 1, pt(t.points[0])) && gvalid(t.points[k]))

//@ func (*projLookupTable).SelectInto(v, dest, x)
//@   leak none
//@   mode group
//@   requires [table] isTable8self(v)
//@   requires [range] -8 <= x && x <= 8
//@   assigns *dest
//@   ensures [value] pt(dest) == smul(x, pt(v.points[0]))
//@   ensures [valid] gvalid(dest)

//@ func (*affineLookupTable).SelectInto(v, dest, x)
//@   leak none
//@   mode group
//@   requires [table] isTable8self(v)
//@   requires [range] -8 <= x && x <= 8
//@   assigns *dest
//@   ensures [value] pt(dest) == smul(x, pt(v.points[0]))
//@   ensures [valid] gvalid(dest)

//@ func (*nafLookupTable5).SelectInto(v, dest, x)
//@   leak vartime operation named VarTime or used only by them (exempt)
//@   mode group
//@   requires [table] isNaf5self(v)
//@   requires [odd] 0 < x && x < 16 && x % 2 == 1
//@   assigns *dest
//@   ensures [value] pt(dest) == smul(x, pt(v.points[0]))
//@   ensures [valid] gvalid(dest)

//@ func (*nafLookupTable8).SelectInto(v, dest, x)
//@   leak vartime operation named VarTime or used only by them (exempt)
//@   mode group
//@   requires [table] isNaf8self(v)
//@   requires [odd] 0 < x && x % 2 == 1
//@   assigns *dest
//@   ensures [value] pt(dest) == smul(x, pt(v.points[0]))
//@   ensures [valid] gvalid(dest)

// ---------------------------------------------------------------- scalar multiplication (property C01)
// the integer in [0, L) a Scalar stands for:
//@ define nval(s) = (ev4(s.s) * RINV) % L

//@ func (*Point).ScalarMult(v, x, q)
//@   leak none
//@   mode group
//@   requires [scalar] sinv(x)
//@   requires [wf] wf(q)
//@   panics !init(q)
//@   assigns *v
//@   ensures [receiver] result == v
//@   ensures [valid] gvalid(v)
//@   ensures [value] pt(v) == smul(nval(x), pt(q))

//@ func basepointTable$1()
//@   leak none
//@   mode group
//@   assigns basepointTablePrecomp.table
//@   ensures [table] isBase(basepointTablePrecomp.table)

//@ func basepointTable()
//@   leak none
//@   mode group
//@   assigns basepointTablePrecomp
//@   ensures [result] result == basepointTablePrecomp.table
//@   ensures [table] isBase(basepointTablePrecomp.table)

//@ func basepointNafTable$1()
//@   leak vartime operation named VarTime or used only by them (exempt)
//@   mode group
//@   assigns basepointNafTablePrecomp.table
//@   ensures [table] isNaf8(basepointNafTablePrecomp.table, gbase())

//@ func basepointNafTable()
//@   leak vartime operation named VarTime or used only by them (exempt)
//@   mode group
//@   assigns basepointNafTablePrecomp
//@   ensures [result] result == basepointNafTablePrecomp.table
//@   ensures [table] isNaf8(basepointNafTablePrecomp.table, gbase())

//@ func (*Point).ScalarBaseMult(v, x)
//@   leak none
//@   mode group
//@   requires [scalar] sinv(x)
//@   assigns *v, basepointTablePrecomp
//@   ensures [receiver] result == v
//@   ensures [valid] gvalid(v)
//@   ensures [value] pt(v) == smul(nval(x), gbase())

// width-w non-adjacent form: sum naf[j]*2^j is the scalar's integer, non-zero digits are odd and below 2^(w-1).
// Proved with one cut point per bit position: S + carry*2^pos == K mod 2^pos where S is the digit sum written so far
// and K the scalar's integer; digits from pos on are still zero; a pending carry implies pos <= 254 (K < 2^253).
// The bytes of K are introduced as sums of their bits (`opt bitbytes`), so that every window -- a bit slice of K at a
// concrete offset -- is an exact linear term.
//@ define nafsum(a, n) = sum j in 0..n: a[j] * 2^j
//@ define nafdigit(x, w) = x == 0 || (x % 2 != 0 && 0 - 2^(w - 1) < x && x < 2^(w - 1))
//@ func (*Scalar).nonAdjacentForm(s, w)
//@   mode lia
//@   opt bitbytes wrapshift wrapconv chainposts widepost=4000
//@   leak vartime operation used only by the VarTime routines (exempt)
//@   requires [reduced] sinv(s)
//@   requires [width] w == 5 || w == 8
//@   entrysplit w in {5,8}
//@   assigns nothing
//@   loop 2 var pos
//@   loop 2 opt cut
//@   loop 2 modifies naf
//@   loop 2 invariant [carry] carry == 0 || carry == 1
//@   loop 2 invariant [tail] forall j in 0..256: (j >= pos ==> naf[j] == 0)
//@   loop 2 invariant [digits] forall j in 0..256: nafdigit(naf[j], w)
//@   loop 2 invariant [prefix] nafsum(naf, 256) + carry * 2^pos == le(b, 32) % 2^pos
//@   loop 2 invariant [top] carry == 1 ==> pos <= 254
//@   ensuresbody [same] nafsum(result, 256) == le(b, 32)
//@   ensures [digits] forall j in 0..256: nafdigit(result[j], w)
//@   ensures [canonical] 0 <= nafsum(result, 256) && nafsum(result, 256) < L
//@   ensures [value] cong(nafsum(result, 256), ev4(s.s) * RINV, L)

//@ func (*Point).VarTimeDoubleScalarBaseMult(v, a, A, b)
//@   leak vartime operation named VarTime or used only by them (exempt)
//@   mode group
//@   opt quickparts=distinct,v=A
//@   requires [scalar] sinv(a) && sinv(b)
//@   requires [wf] wf(A)
//@   panics !init(A)
//@   assigns *v, basepointNafTablePrecomp
//@   loop 1 var j
//@   loop 1 opt cut
//@   loop 1 invariant [none] true
//@   loop 2 var i
//@   loop 2 opt cut
//@   loop 2 modifies *tmp1, *tmp2, *v, *multA, *multB
//@   loop 2 invariant [acc] pt(tmp2) == gadd(smul(sum t in i + 1..256: aNaf[t] * 2^(t - i - 1), pt(old(A))), smul(sum t in i + 1..256: bNaf[t] * 2^(t - i - 1), gbase()))
//@   loop 2 invariant [valid] gvalid(tmp2)
//@   ensures [receiver] result == v
//@   ensures [valid] gvalid(v)
//@   ensures [value] pt(v) == gadd(smul(nval(a), pt(A)), smul(nval(b), gbase()))

//@ func (*Point).MultByCofactor(v, p) as group
//@   mode group
//@   requires [wf] wf(p)
//@   panics !init(p)
//@   assigns *v
//@   ensures [receiver] result == v
//@   ensures [valid] gvalid(v)
//@   ensures [value] pt(v) == smul(8, pt(p))

// bounded: proved for up to 5 terms (all scalars and points symbolic; distinct storage and the receiver as one of the points)
//@ func (*Point).MultiScalarMult(v, scalars, points)
//@   leak none
//@   mode group
//@   opt elemalias=v:points:5
//@   entrysplit len(scalars) in 0..6
//@   entrysplit len(points) in 0..6
//@   requires [bounded] len(scalars) < 6 && len(points) < 6
//@   requires [scalars] forall j in 0..len(scalars): sinv(scalars[j])
//@   requires [wf] forall j in 0..len(points): wf(points[j])
//@   panics len(scalars) != len(points) || (exists j in 0..len(points): !init(points[j]))
//@   assigns *v
//@   ensures [receiver] result == v
//@   ensures [valid] gvalid(v)
//@   ensures [value] pt(v) == (gsum j in 0..len(points): smul(nval(scalars[j]), pt(points[j])))

// bounded: proved for up to 2 terms
//@ func (*Point).VarTimeMultiScalarMult(v, scalars, points)
//@   leak vartime operation named VarTime or used only by them (exempt)
//@   mode group
//@   opt elemalias=v:points:2 quickparts=distinct
//@   entrysplit len(scalars) in 0..3
//@   entrysplit len(points) in 0..3
//@   requires [bounded] len(scalars) < 3 && len(points) < 3
//@   requires [scalars] forall j in 0..len(scalars): sinv(scalars[j])
//@   requires [wf] forall j in 0..len(points): wf(points[j])
//@   panics len(scalars) != len(points) || (exists j in 0..len(points): !init(points[j]))
//@   assigns *v
//@   loop 3 var i
//@   loop 3 opt cut
//@   loop 3 modifies *tmp1, *tmp2, *v, *multiple
//@   loop 3 invariant [acc] pt(tmp2) == (gsum j in 0..len(points): smul(sum t in i + 1..256: nafs[j][t] * 2^(t - i - 1), pt(old(points[j]))))
//@   loop 3 invariant [valid] gvalid(tmp2)
//@   ensures [receiver] result == v
//@   ensures [valid] gvalid(v)
//@   ensures [value] pt(v) == (gsum j in 0..len(points): smul(nval(scalars[j]), pt(points[j])))

// ================================================================ LAW bridges: what the tier-G views mean, proved at tier F
//
// A curve point is an affine pair (a, b) with b^2 - a^2 = 1 + d a^2 b^2; the group operation is the affine Edwards law
//   (a1,b1) + (a2,b2) = ((a1 b2 + a2 b1)/(1 + d m), (b1 b2 + a1 a2)/(1 - d m)),  m = a1 a2 b1 b2,
// stated division-free below.  `pt(x) = (a, b)` for the five representations:
//@ define aff(a, b) = cong(lv(b)*lv(b) - lv(a)*lv(a), 1 + lv(d)*lv(a)*lv(a)*lv(b)*lv(b), P)
//@ define repP3(p, a, b) = !cong(lv(p.z), 0, P) && cong(lv(p.x), lv(a)*lv(p.z), P) && cong(lv(p.y), lv(b)*lv(p.z), P) && cong(lv(p.t), lv(a)*lv(b)*lv(p.z), P)
//@ define repP2(p, a, b) = !cong(lv(p.Z), 0, P) && cong(lv(p.X), lv(a)*lv(p.Z), P) && cong(lv(p.Y), lv(b)*lv(p.Z), P)
//@ define repP1(p, a, b) = !cong(lv(p.Z), 0, P) && !cong(lv(p.T), 0, P) && cong(lv(p.X), lv(a)*lv(p.Z), P) && cong(lv(p.Y), lv(b)*lv(p.T), P)
//@ define repC(q, a, b) = !cong(lv(q.Z), 0, P) && cong(lv(q.YplusX), (lv(b)+lv(a))*lv(q.Z), P) && cong(lv(q.YminusX), (lv(b)-lv(a))*lv(q.Z), P) && cong(lv(q.T2d), 2*lv(d)*lv(a)*lv(b)*lv(q.Z), P)
//@ define repA(q, a, b) = cong(lv(q.YplusX), lv(b)+lv(a), P) && cong(lv(q.YminusX), lv(b)-lv(a), P) && cong(lv(q.T2d), 2*lv(d)*lv(a)*lv(b), P)
// M4 in affine form: the denominators of the law do not vanish for points on the curve
//@ define m4aff(a1, b1, a2, b2) = (aff(a1, b1) && aff(a2, b2)) ==> (!cong(1 + lv(d)*lv(a1)*lv(a2)*lv(b1)*lv(b2), 0, P) && !cong(1 - lv(d)*lv(a1)*lv(a2)*lv(b1)*lv(b2), 0, P))
// (X:Z),(Y:T) represents the sum of (a1,b1) and (sx*a2, b2)   (sx = 1: addition, sx = -1: subtraction)
//@ define sumP1(v, a1, b1, a2, b2, sx) = !cong(lv(v.Z), 0, P) && !cong(lv(v.T), 0, P) && cong(lv(v.X) * (1 + sx*lv(d)*lv(a1)*lv(a2)*lv(b1)*lv(b2)), lv(v.Z) * (lv(a1)*lv(b2) + sx*lv(a2)*lv(b1)), P) && cong(lv(v.Y) * (1 - sx*lv(d)*lv(a1)*lv(a2)*lv(b1)*lv(b2)), lv(v.T) * (lv(b1)*lv(b2) + sx*lv(a1)*lv(a2)), P)

//@ func (*projP1xP1).Add(v, p, q) as law
//@   mode ring
//@   opt entrydefs
//@   ghost a1, b1, a2, b2
//@   requires [inv] elems(p) && inv(q.YplusX) && inv(q.YminusX) && inv(q.Z) && inv(q.T2d)
//@   requires [rep] repP3(p, a1, b1) && repC(q, a2, b2)
//@   requires [curve] aff(a1, b1) && aff(a2, b2)
//@   assume [M4] m4aff(a1, b1, a2, b2)
//@   assigns *v
//@   ensures [sum] sumP1(v, a1, b1, a2, b2, 1)

//@ func (*projP1xP1).Sub(v, p, q) as law
//@   mode ring
//@   opt entrydefs
//@   ghost a1, b1, a2, b2
//@   requires [inv] elems(p) && inv(q.YplusX) && inv(q.YminusX) && inv(q.Z) && inv(q.T2d)
//@   requires [rep] repP3(p, a1, b1) && repC(q, a2, b2)
//@   requires [curve] aff(a1, b1) && aff(a2, b2)
//@   assume [M4] m4aff(a1, b1, a2, b2)
//@   assigns *v
//@   ensures [sum] sumP1(v, a1, b1, a2, b2, 0 - 1)

//@ func (*projP1xP1).AddAffine(v, p, q) as law
//@   mode ring
//@   opt entrydefs
//@   ghost a1, b1, a2, b2
//@   requires [inv] elems(p) && inv(q.YplusX) && inv(q.YminusX) && inv(q.T2d)
//@   requires [rep] repP3(p, a1, b1) && repA(q, a2, b2)
//@   requires [curve] aff(a1, b1) && aff(a2, b2)
//@   assume [M4] m4aff(a1, b1, a2, b2)
//@   assigns *v
//@   ensures [sum] sumP1(v, a1, b1, a2, b2, 1)

//@ func (*projP1xP1).SubAffine(v, p, q) as law
//@   mode ring
//@   opt entrydefs
//@   ghost a1, b1, a2, b2
//@   requires [inv] elems(p) && inv(q.YplusX) && inv(q.YminusX) && inv(q.T2d)
//@   requires [rep] repP3(p, a1, b1) && repA(q, a2, b2)
//@   requires [curve] aff(a1, b1) && aff(a2, b2)
//@   assume [M4] m4aff(a1, b1, a2, b2)
//@   assigns *v
//@   ensures [sum] sumP1(v, a1, b1, a2, b2, 0 - 1)

//@ func (*projP1xP1).Double(v, p) as law
//@   mode ring
//@   opt entrydefs
//@   ghost a1, b1
//@   requires [inv] inv(p.X) && inv(p.Y) && inv(p.Z)
//@   requires [rep] repP2(p, a1, b1)
//@   requires [curve] aff(a1, b1)
//@   assume [M4] m4aff(a1, b1, a1, b1)
//@   assigns *v
//@   ensures [sum] sumP1(v, a1, b1, a1, b1, 1)

//@ func (*projP2).FromP1xP1(v, p) as law
//@   mode ring
//@   opt entrydefs
//@   ghost a1, b1
//@   requires [inv] inv(p.X) && inv(p.Y) && inv(p.Z) && inv(p.T)
//@   requires [rep] repP1(p, a1, b1)
//@   assigns *v
//@   ensures [same] repP2(v, a1, b1)

//@ func (*projP2).FromP3(v, p) as law
//@   mode ring
//@   opt entrydefs
//@   ghost a1, b1
//@   requires [rep] repP3(p, a1, b1)
//@   assigns *v
//@   ensures [same] repP2(v, a1, b1)

//@ func (*Point).fromP1xP1(v, p) as law
//@   mode ring
//@   opt entrydefs
//@   ghost a1, b1
//@   requires [inv] inv(p.X) && inv(p.Y) && inv(p.Z) && inv(p.T)
//@   requires [rep] repP1(p, a1, b1)
//@   assigns *v
//@   ensures [same] repP3(v, a1, b1)

//@ func (*Point).fromP2(v, p) as law
//@   mode ring
//@   opt entrydefs
//@   ghost a1, b1
//@   requires [inv] inv(p.X) && inv(p.Y) && inv(p.Z)
//@   requires [rep] repP2(p, a1, b1)
//@   assigns *v
//@   ensures [same] repP3(v, a1, b1)

//@ func (*projCached).FromP3(v, p) as law
//@   mode ring
//@   opt entrydefs
//@   ghost a1, b1
//@   requires [inv] elems(p)
//@   requires [rep] repP3(p, a1, b1)
//@   assigns *v
//@   ensures [same] repC(v, a1, b1)

//@ func (*affineCached).FromP3(v, p) as law
//@   mode ring
//@   opt entrydefs
//@   ghost a1, b1
//@   requires [inv] elems(p)
//@   requires [rep] repP3(p, a1, b1)
//@   assigns *v
//@   ensures [same] repA(v, a1, b1)

// conditional negation: (a, b) -> (-a, b)
//@ func (*projCached).CondNeg(v, cond) as law
//@   mode ring
//@   ghost a1, b1, na
//@   requires [cond] cond == 0 || cond == 1
//@   requires [inv] inv(v.YplusX) && inv(v.YminusX) && inv(v.Z) && inv(v.T2d)
//@   requires [rep] repC(v, a1, b1) && cong(lv(na), 0 - lv(a1), P)
//@   entrysplit cond in {0, 1}
//@   assigns *v
//@   ensures [neg] cond == 1 ==> repC(v, na, b1)
//@   ensures [same] cond == 0 ==> repC(v, a1, b1)

//@ func (*affineCached).CondNeg(v, cond) as law
//@   mode ring
//@   ghost a1, b1, na
//@   requires [cond] cond == 0 || cond == 1
//@   requires [inv] inv(v.YplusX) && inv(v.YminusX) && inv(v.T2d)
//@   requires [rep] repA(v, a1, b1) && cong(lv(na), 0 - lv(a1), P)
//@   entrysplit cond in {0, 1}
//@   assigns *v
//@   ensures [neg] cond == 1 ==> repA(v, na, b1)
//@   ensures [same] cond == 0 ==> repA(v, a1, b1)

// the exported operations as group operations, from the bridges above
//@ func (*Point).Add(v, p, q) as group
//@   mode group
//@   requires [wf] wf(p) && wf(q)
//@   panics !init(p) || !init(q)
//@   assigns *v
//@   ensures [receiver] result == v
//@   ensures [value] pt(v) == gadd(pt(p), pt(q))
//@   ensures [valid] gvalid(v)

//@ func (*Point).Subtract(v, p, q) as group
//@   mode group
//@   requires [wf] wf(p) && wf(q)
//@   panics !init(p) || !init(q)
//@   assigns *v
//@   ensures [receiver] result == v
//@   ensures [value] pt(v) == gadd(pt(p), gneg(pt(q)))
//@   ensures [valid] gvalid(v)

//@ func (*Point).Negate(v, p) as law
//@   mode ring
//@   ghost a1, b1, na
//@   requires [inv] elems(p)
//@   requires [rep] repP3(p, a1, b1) && cong(lv(na), 0 - lv(a1), P)
//@   requires [init] init(p)
//@   assigns *v
//@   ensures [neg] repP3(v, na, b1)

// the neutral element is the affine point (0, 1)
//@ func (*projP2).Zero(v) as law
//@   mode ring
//@   ghost z0, o1
//@   requires [consts] cong(lv(z0), 0, P) && cong(lv(o1), 1, P)
//@   assigns *v
//@   ensures [id] repP2(v, z0, o1)

//@ func (*projCached).Zero(v) as law
//@   mode ring
//@   ghost z0, o1
//@   requires [consts] cong(lv(z0), 0, P) && cong(lv(o1), 1, P)
//@   assigns *v
//@   ensures [id] repC(v, z0, o1)

//@ func (*affineCached).Zero(v) as law
//@   mode ring
//@   ghost z0, o1
//@   requires [consts] cong(lv(z0), 0, P) && cong(lv(o1), 1, P)
//@   assigns *v
//@   ensures [id] repA(v, z0, o1)

// ---------------------------------------------------------------- Scalar.Invert (property C07): arithmetic in Z/l
// Tier "Z/l" (ring mode with the prime l): a Scalar is an opaque value sval(s) = ev4(s.s)*RINV mod l.  The `sensures`
// views of Multiply/Set restate their Montgomery-form contracts in that vocabulary (ev4 = sval*R and R is a unit mod l).
// pow2k is proved for the five repetition counts the addition chain uses.
//@ func (*Scalar).pow2k(s, k)
//@   mode ring mod=L opaque=Scalar view=scalar
//@   leak none
//@   public k
//@   entrysplit k in {4, 5, 6, 10, 128}
//@   requires [counts] k == 4 || k == 5 || k == 6 || k == 10 || k == 128
//@   assigns *s
//@   ensures [value] cong(sval(s), fpow(sval(old(s)), 2^k), L)

//@ func (*Scalar).Invert(s, t)
//@   mode ring mod=L opaque=Scalar view=scalar
//@   leak none
//@   assigns *s
//@   ensures [receiver] result == s
//@   ensures [value] cong(sval(s), fpow(sval(t), L - 2), L)
