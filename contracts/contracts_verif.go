//go:build verif

// Contracts for package edwards25519, checked by /verif/govc (contract-based deductive
// verification).  This file contains only comments: with or without the `verif`
// build tag it adds no symbol to the package.
//
// Tier F (`mode ring`): a field.Element is an opaque value of GF(p); `lv(e)` is that value,
// `cong(a, b, P)` is equality in GF(p), `inv(e)` is the limb-bound invariant of package field.
// The callee contracts of package field are read through the ring homomorphism Z -> GF(p).
package edwards25519

//@ const P = 2^255 - 19

// A Point holds four elements within the representation invariant in every reachable state,
// including the zero value:
//@ define elems(p) = inv(p.x) && inv(p.y) && inv(p.z) && inv(p.t)
// the algebraic part of validity (property C12): Z != 0, on the curve, X*Y = Z*T
//@ define oncurve(p) = cong(lv(p.y)*lv(p.y) - lv(p.x)*lv(p.x), lv(p.z)*lv(p.z) + lv(d)*lv(p.t)*lv(p.t), P)
//@ define txy(p) = cong(lv(p.x)*lv(p.y), lv(p.z)*lv(p.t), P)
//@ define zne(p) = !cong(lv(p.z), 0, P)
//@ define validc(p) = zne(p) && oncurve(p) && txy(p)
// `init` is the test the code itself makes (both X and Y are the zero limb vector):
//@ define init(p) = !(rawzero(p.x) && rawzero(p.y))
// data-structure invariant of Point:  zero value, or a valid curve point
//@ define wf(p) = elems(p) && (init(p) ==> validc(p))
//@ define samepoint(v, u) = eqlimbs(v.x, u.x) && eqlimbs(v.y, u.y) && eqlimbs(v.z, u.z) && eqlimbs(v.t, u.t)

// a valid point is never the zero value: X = Y = 0 and the two equations force Z = 0
//@ lemma validinit(p *Point): validc(p) ==> init(p)

//@ globalinv [d] inv(d)
//@ globalinv [d2] inv(d2) && cong(lv(d2), 2 * lv(d), P)
//@ globalinv [feOne] isone(feOne)
//@ globalinv [identity] elems(identity) && init(identity) && validc(identity) && cong(lv(identity.x), 0, P) && cong(lv(identity.y), lv(identity.z), P)
//@ globalinv [generator] elems(generator) && init(generator) && validc(generator)

//@ func checkInitialized(points)
//@   mode ring
//@   trusted body is a loop over a variadic slice of symbolic length; proved at tier G
//@   panics exists i in 0..len(points): !init(points[i])
//@   assigns nothing

// ---------------------------------------------------------------- constructors, copies

//@ func (*projP2).Zero(v)
//@   mode ring
//@   assigns *v
//@   ensures [receiver] result == v
//@   ensures [value] iszero(v.X) && isone(v.Y) && isone(v.Z)

//@ func (*projCached).Zero(v)
//@   mode ring
//@   assigns *v
//@   ensures [receiver] result == v
//@   ensures [value] isone(v.YplusX) && isone(v.YminusX) && isone(v.Z) && iszero(v.T2d)

//@ func (*affineCached).Zero(v)
//@   mode ring
//@   assigns *v
//@   ensures [receiver] result == v
//@   ensures [value] isone(v.YplusX) && isone(v.YminusX) && iszero(v.T2d)

//@ func (*Point).Set(v, u)
//@   mode ring
//@   assigns *v
//@   ensures [receiver] result == v
//@   ensures [copy] samepoint(v, u)

//@ func NewIdentityPoint()
//@   mode ring
//@   assigns nothing
//@   ensures [fresh] fresh(result)
//@   ensures [copy] samepoint(result, identity)

//@ func NewGeneratorPoint()
//@   mode ring
//@   assigns nothing
//@   ensures [fresh] fresh(result)
//@   ensures [copy] samepoint(result, generator)

// ---------------------------------------------------------------- conversions (definition contracts)

//@ func (*projP2).FromP1xP1(v, p)
//@   mode ring
//@   requires [inv] inv(p.X) && inv(p.Y) && inv(p.Z) && inv(p.T)
//@   assigns *v
//@   ensures [receiver] result == v
//@   ensures [inv] tight(v.X) && tight(v.Y) && tight(v.Z)
//@   ensures [X] cong(lv(v.X), lv(p.X) * lv(p.T), P)
//@   ensures [Y] cong(lv(v.Y), lv(p.Y) * lv(p.Z), P)
//@   ensures [Z] cong(lv(v.Z), lv(p.Z) * lv(p.T), P)

//@ func (*projP2).FromP3(v, p)
//@   mode ring
//@   assigns *v
//@   ensures [receiver] result == v
//@   ensures [copy] eqlimbs(v.X, p.x) && eqlimbs(v.Y, p.y) && eqlimbs(v.Z, p.z)

//@ func (*Point).fromP1xP1(v, p)
//@   mode ring
//@   requires [inv] inv(p.X) && inv(p.Y) && inv(p.Z) && inv(p.T)
//@   assigns *v
//@   ensures [receiver] result == v
//@   ensures [inv] tight(v.x) && tight(v.y) && tight(v.z) && tight(v.t)
//@   ensures [x] cong(lv(v.x), lv(p.X) * lv(p.T), P)
//@   ensures [y] cong(lv(v.y), lv(p.Y) * lv(p.Z), P)
//@   ensures [z] cong(lv(v.z), lv(p.Z) * lv(p.T), P)
//@   ensures [t] cong(lv(v.t), lv(p.X) * lv(p.Y), P)

//@ func (*Point).fromP2(v, p)
//@   mode ring
//@   requires [inv] inv(p.X) && inv(p.Y) && inv(p.Z)
//@   assigns *v
//@   ensures [receiver] result == v
//@   ensures [inv] tight(v.x) && tight(v.y) && tight(v.z) && tight(v.t)
//@   ensures [x] cong(lv(v.x), lv(p.X) * lv(p.Z), P)
//@   ensures [y] cong(lv(v.y), lv(p.Y) * lv(p.Z), P)
//@   ensures [z] cong(lv(v.z), lv(p.Z) * lv(p.Z), P)
//@   ensures [t] cong(lv(v.t), lv(p.X) * lv(p.Y), P)

//@ func (*projCached).FromP3(v, p)
//@   mode ring
//@   requires [inv] elems(p)
//@   assigns *v
//@   ensures [receiver] result == v
//@   ensures [inv] tight(v.YplusX) && tight(v.YminusX) && inv(v.Z) && tight(v.T2d)
//@   ensures [YplusX] cong(lv(v.YplusX), lv(p.y) + lv(p.x), P)
//@   ensures [YminusX] cong(lv(v.YminusX), lv(p.y) - lv(p.x), P)
//@   ensures [Z] eqlimbs(v.Z, p.z)
//@   ensures [T2d] cong(lv(v.T2d), 2 * lv(d) * lv(p.t), P)

//@ func (*affineCached).FromP3(v, p)
//@   mode ring
//@   requires [inv] elems(p)
//@   assigns *v
//@   ensures [receiver] result == v
//@   ensures [inv] tight(v.YplusX) && tight(v.YminusX) && tight(v.T2d)
//@   ensures [YplusX] cong(lv(v.YplusX), (lv(p.y) + lv(p.x)) * finv(lv(p.z)), P)
//@   ensures [YminusX] cong(lv(v.YminusX), (lv(p.y) - lv(p.x)) * finv(lv(p.z)), P)
//@   ensures [T2d] cong(lv(v.T2d), 2 * lv(d) * lv(p.t) * finv(lv(p.z)), P)

// ---------------------------------------------------------------- addition / doubling in P1xP1 (definition contracts)

//@ func (*projP1xP1).Add(v, p, q)
//@   mode ring
//@   requires [inv] elems(p) && inv(q.YplusX) && inv(q.YminusX) && inv(q.Z) && inv(q.T2d)
//@   assigns *v
//@   ensures [receiver] result == v
//@   ensures [inv] tight(v.X) && tight(v.Y) && tight(v.Z) && tight(v.T)
//@   ensures [X] cong(lv(v.X), (lv(p.y) + lv(p.x)) * lv(q.YplusX) - (lv(p.y) - lv(p.x)) * lv(q.YminusX), P)
//@   ensures [Y] cong(lv(v.Y), (lv(p.y) + lv(p.x)) * lv(q.YplusX) + (lv(p.y) - lv(p.x)) * lv(q.YminusX), P)
//@   ensures [Z] cong(lv(v.Z), 2 * lv(p.z) * lv(q.Z) + lv(p.t) * lv(q.T2d), P)
//@   ensures [T] cong(lv(v.T), 2 * lv(p.z) * lv(q.Z) - lv(p.t) * lv(q.T2d), P)

//@ func (*projP1xP1).Sub(v, p, q)
//@   mode ring
//@   requires [inv] elems(p) && inv(q.YplusX) && inv(q.YminusX) && inv(q.Z) && inv(q.T2d)
//@   assigns *v
//@   ensures [receiver] result == v
//@   ensures [inv] tight(v.X) && tight(v.Y) && tight(v.Z) && tight(v.T)
//@   ensures [X] cong(lv(v.X), (lv(p.y) + lv(p.x)) * lv(q.YminusX) - (lv(p.y) - lv(p.x)) * lv(q.YplusX), P)
//@   ensures [Y] cong(lv(v.Y), (lv(p.y) + lv(p.x)) * lv(q.YminusX) + (lv(p.y) - lv(p.x)) * lv(q.YplusX), P)
//@   ensures [Z] cong(lv(v.Z), 2 * lv(p.z) * lv(q.Z) - lv(p.t) * lv(q.T2d), P)
//@   ensures [T] cong(lv(v.T), 2 * lv(p.z) * lv(q.Z) + lv(p.t) * lv(q.T2d), P)

//@ func (*projP1xP1).AddAffine(v, p, q)
//@   mode ring
//@   requires [inv] elems(p) && inv(q.YplusX) && inv(q.YminusX) && inv(q.T2d)
//@   assigns *v
//@   ensures [receiver] result == v
//@   ensures [inv] tight(v.X) && tight(v.Y) && tight(v.Z) && tight(v.T)
//@   ensures [X] cong(lv(v.X), (lv(p.y) + lv(p.x)) * lv(q.YplusX) - (lv(p.y) - lv(p.x)) * lv(q.YminusX), P)
//@   ensures [Y] cong(lv(v.Y), (lv(p.y) + lv(p.x)) * lv(q.YplusX) + (lv(p.y) - lv(p.x)) * lv(q.YminusX), P)
//@   ensures [Z] cong(lv(v.Z), 2 * lv(p.z) + lv(p.t) * lv(q.T2d), P)
//@   ensures [T] cong(lv(v.T), 2 * lv(p.z) - lv(p.t) * lv(q.T2d), P)

//@ func (*projP1xP1).SubAffine(v, p, q)
//@   mode ring
//@   requires [inv] elems(p) && inv(q.YplusX) && inv(q.YminusX) && inv(q.T2d)
//@   assigns *v
//@   ensures [receiver] result == v
//@   ensures [inv] tight(v.X) && tight(v.Y) && tight(v.Z) && tight(v.T)
//@   ensures [X] cong(lv(v.X), (lv(p.y) + lv(p.x)) * lv(q.YminusX) - (lv(p.y) - lv(p.x)) * lv(q.YplusX), P)
//@   ensures [Y] cong(lv(v.Y), (lv(p.y) + lv(p.x)) * lv(q.YminusX) + (lv(p.y) - lv(p.x)) * lv(q.YplusX), P)
//@   ensures [Z] cong(lv(v.Z), 2 * lv(p.z) - lv(p.t) * lv(q.T2d), P)
//@   ensures [T] cong(lv(v.T), 2 * lv(p.z) + lv(p.t) * lv(q.T2d), P)

//@ func (*projP1xP1).Double(v, p)
//@   mode ring
//@   requires [inv] inv(p.X) && inv(p.Y) && inv(p.Z)
//@   assigns *v
//@   ensures [receiver] result == v
//@   ensures [inv] tight(v.X) && tight(v.Y) && tight(v.Z) && tight(v.T)
//@   ensures [X] cong(lv(v.X), 2 * lv(p.X) * lv(p.Y), P)
//@   ensures [Y] cong(lv(v.Y), lv(p.Y) * lv(p.Y) + lv(p.X) * lv(p.X), P)
//@   ensures [Z] cong(lv(v.Z), lv(p.Y) * lv(p.Y) - lv(p.X) * lv(p.X), P)
//@   ensures [T] cong(lv(v.T), 2 * lv(p.Z) * lv(p.Z) - lv(p.Y) * lv(p.Y) + lv(p.X) * lv(p.X), P)

// ---------------------------------------------------------------- the group law on Points (property C02)
//
// M4 (Bernstein-Birkner-Joye-Lange-Peters 2008, Thm 3.3; d is a non-square in GF(p)): for two points on
// the curve the denominators of the addition law do not vanish.  It is mathematics about the curve, not
// about this code, and is assumed (listed as a K3 instance in the evidence).
//@ define den1(p, q) = lv(p.z) * lv(q.z) + lv(d) * lv(p.t) * lv(q.t)
//@ define den2(p, q) = lv(p.z) * lv(q.z) - lv(d) * lv(p.t) * lv(q.t)
//@ define m4(p, q) = (validc(p) && validc(q)) ==> (!cong(den1(p, q), 0, P) && !cong(den2(p, q), 0, P))
// the projective form of  x3 = (x1y2 + x2y1)/(1 + d x1x2y1y2),  y3 = (y1y2 + x1x2)/(1 - d x1x2y1y2):
//@ define lawx(v, p, q) = cong(lv(v.x) * den1(p, q), lv(v.z) * (lv(p.x) * lv(q.y) + lv(q.x) * lv(p.y)), P)
//@ define lawy(v, p, q) = cong(lv(v.y) * den2(p, q), lv(v.z) * (lv(p.y) * lv(q.y) + lv(p.x) * lv(q.x)), P)
// subtraction is addition of (-x2, y2):
//@ define slawx(v, p, q) = cong(lv(v.x) * den2(p, q), lv(v.z) * (lv(p.x) * lv(q.y) - lv(q.x) * lv(p.y)), P)
//@ define slawy(v, p, q) = cong(lv(v.y) * den1(p, q), lv(v.z) * (lv(p.y) * lv(q.y) - lv(p.x) * lv(q.x)), P)

//@ func (*Point).Add(v, p, q)
//@   mode ring
//@   requires [wf] wf(p) && wf(q)
//@   assume [M4] m4(p, q)
//@   use validinit(v)
//@   panics !init(p) || !init(q)
//@   assigns *v
//@   ensures [receiver] result == v
//@   ensures [elems] elems(v)
//@   ensures [zne] zne(v)
//@   ensures [oncurve] oncurve(v)
//@   ensures [txy] txy(v)
//@   ensures [init] init(v)
//@   ensures [lawx] lawx(v, p, q)
//@   ensures [lawy] lawy(v, p, q)

//@ func (*Point).Subtract(v, p, q)
//@   mode ring
//@   requires [wf] wf(p) && wf(q)
//@   assume [M4] m4(p, q)
//@   use validinit(v)
//@   panics !init(p) || !init(q)
//@   assigns *v
//@   ensures [receiver] result == v
//@   ensures [elems] elems(v)
//@   ensures [zne] zne(v)
//@   ensures [oncurve] oncurve(v)
//@   ensures [txy] txy(v)
//@   ensures [init] init(v)
//@   ensures [lawx] slawx(v, p, q)
//@   ensures [lawy] slawy(v, p, q)

//@ func (*Point).Negate(v, p)
//@   mode ring
//@   requires [wf] wf(p)
//@   use validinit(v)
//@   panics !init(p)
//@   assigns *v
//@   ensures [receiver] result == v
//@   ensures [elems] elems(v)
//@   ensures [zne] zne(v)
//@   ensures [oncurve] oncurve(v)
//@   ensures [txy] txy(v)
//@   ensures [init] init(v)
//@   ensures [x] cong(lv(v.x), 0 - lv(p.x), P)
//@   ensures [y] cong(lv(v.y), lv(p.y), P)
//@   ensures [z] cong(lv(v.z), lv(p.z), P)
//@   ensures [t] cong(lv(v.t), 0 - lv(p.t), P)

//@ func (*Point).Equal(v, u)
//@   mode ring
//@   requires [wf] wf(v) && wf(u)
//@   panics !init(v) || !init(u)
//@   assigns nothing
//@   ensures [bit] 0 <= result && result <= 1
//@   ensures [iff] result == 1 <==> (cong(lv(v.x) * lv(u.z), lv(u.x) * lv(v.z), P) && cong(lv(v.y) * lv(u.z), lv(u.y) * lv(v.z), P))
