//go:build verif

// Contracts for package field, checked by /verif/govc (contract-based deductive
// verification).  This file contains only comments: with or without the `verif`
// build tag it adds no symbol to the package.
//
// Syntax: see /verif/govc/cparse.py.  In `ensures`, a parameter that is not named
// in `assigns` denotes its value at entry (old); `v.l0` of an assigned receiver is
// the final value.  Each function is verified under every alias partition of its
// pointer parameters.
package field

//@ const P = 2^255 - 19
//@ const B = 2^52 - 38
//@ const M51 = 2^51 - 1
//@ define lv(e) = e.l0 + e.l1*2^51 + e.l2*2^102 + e.l3*2^153 + e.l4*2^204
//@ define inv(e) = e.l0 <= B && e.l1 <= B && e.l2 <= B && e.l3 <= B && e.l4 <= B
//@ define tight(e) = e.l0 < 2^51 + 2^18 && e.l1 < 2^51 + 2^13 && e.l2 < 2^51 + 2^13 && e.l3 < 2^51 + 2^13 && e.l4 < 2^51 + 2^13
//@ define canon(e) = e.l0 <= M51 && e.l1 <= M51 && e.l2 <= M51 && e.l3 <= M51 && e.l4 <= M51 && lv(e) < P
//@ define small(e) = e.l0 <= M51 && e.l1 <= M51 && e.l2 <= M51 && e.l3 <= M51 && e.l4 <= M51
//@ define v128(x) = x.lo + x.hi*2^64
//@ define eqlimbs(x, y) = x.l0 == y.l0 && x.l1 == y.l1 && x.l2 == y.l2 && x.l3 == y.l3 && x.l4 == y.l4
//@ define iszero(e) = e.l0 == 0 && e.l1 == 0 && e.l2 == 0 && e.l3 == 0 && e.l4 == 0
//@ define isone(e) = e.l0 == 1 && e.l1 == 0 && e.l2 == 0 && e.l3 == 0 && e.l4 == 0

//@ globalinv [X:feZero] iszero(feZero)
//@ globalinv [X:feOne] isone(feOne)

//@ func mul64(a, b)
//@   leak none
//@   mode lia
//@   ensures [value] v128(result) == a * b
//@   ensures [lo] result.lo < 2^64

//@ func addMul64(v, a, b)
//@   leak none
//@   mode lia
//@   requires [fits] v128(v) + a * b < 2^128
//@   ensures [value] v128(result) == v128(v) + a * b

//@ func shiftRightBy51(a)
//@   leak none
//@   mode lia
//@   requires [fits] v128(a) < 2^115
//@   ensures [value] result == v128(a) / 2^51

//@ func (*Element).carryPropagateGeneric(v)
//@   leak none
//@   mode lia
//@   assigns *v
//@   ensures [receiver] result == v
//@   ensures [cong] cong(lv(v), lv(old(v)), P)
//@   ensures [l0] v.l0 <= M51 + 19 * (old(v).l4 / 2^51)
//@   ensures [l1] v.l1 <= M51 + old(v).l0 / 2^51
//@   ensures [l2] v.l2 <= M51 + old(v).l1 / 2^51
//@   ensures [l3] v.l3 <= M51 + old(v).l2 / 2^51
//@   ensures [l4] v.l4 <= M51 + old(v).l3 / 2^51
//@   ensures [tight] tight(v)

//@ func (*Element).carryPropagate(v)
//@   leak none
//@   mode lia
//@   assigns *v
//@   ensures [receiver] result == v
//@   ensures [cong] cong(lv(v), lv(old(v)), P)
//@   ensures [l0] v.l0 <= M51 + 19 * (old(v).l4 / 2^51)
//@   ensures [l1] v.l1 <= M51 + old(v).l0 / 2^51
//@   ensures [l2] v.l2 <= M51 + old(v).l1 / 2^51
//@   ensures [l3] v.l3 <= M51 + old(v).l2 / 2^51
//@   ensures [l4] v.l4 <= M51 + old(v).l3 / 2^51
//@   ensures [tight] tight(v)

//@ func (*Element).Add(v, a, b)
//@   leak none
//@   mode lia
//@   requires [inv] inv(a) && inv(b)
//@   assigns *v
//@   ensures [receiver] result == v
//@   ensures [tight] tight(v)
//@   ensures [value] cong(lv(v), lv(a) + lv(b), P)

//@ func (*Element).Subtract(v, a, b)
//@   leak none
//@   mode lia
//@   requires [inv] inv(a) && inv(b)
//@   assigns *v
//@   ensures [receiver] result == v
//@   ensures [tight] tight(v)
//@   ensures [value] cong(lv(v), lv(a) - lv(b), P)

//@ func (*Element).Negate(v, a)
//@   leak none
//@   mode lia
//@   requires [inv] inv(a)
//@   assigns *v
//@   ensures [receiver] result == v
//@   ensures [tight] tight(v)
//@   ensures [value] cong(lv(v), 0 - lv(a), P)

//@ func feMulGeneric(v, a, b)
//@   leak none
//@   mode lia
//@   requires [inv] inv(a) && inv(b)
//@   assigns *v
//@   ensures [tight] tight(v)
//@   ensures [value] cong(lv(v), lv(a) * lv(b), P)

//@ func feSquareGeneric(v, a)
//@   leak none
//@   mode lia
//@   requires [inv] inv(a)
//@   assigns *v
//@   ensures [tight] tight(v)
//@   ensures [value] cong(lv(v), lv(a) * lv(a), P)

//@ func feMul(v, a, b)
//@   leak none
//@   mode lia
//@   requires [inv] inv(a) && inv(b)
//@   assigns *v
//@   ensures [tight] tight(v)
//@   ensures [value] cong(lv(v), lv(a) * lv(b), P)

//@ func feSquare(v, a)
//@   leak none
//@   mode lia
//@   requires [inv] inv(a)
//@   assigns *v
//@   ensures [tight] tight(v)
//@   ensures [value] cong(lv(v), lv(a) * lv(a), P)

//@ func (*Element).Multiply(v, x, y)
//@   leak none
//@   mode lia
//@   requires [inv] inv(x) && inv(y)
//@   assigns *v
//@   ensures [receiver] result == v
//@   ensures [tight] tight(v)
//@   ensures [value] cong(lv(v), lv(x) * lv(y), P)

//@ func (*Element).Square(v, x)
//@   leak none
//@   mode lia
//@   requires [inv] inv(x)
//@   assigns *v
//@   ensures [receiver] result == v
//@   ensures [tight] tight(v)
//@   ensures [value] cong(lv(v), lv(x) * lv(x), P)

//@ func mul51(a, b)
//@   leak none
//@   mode lia
//@   requires [fits] a <= B
//@   ensures [value] result0 + result1 * 2^51 == a * b
//@   ensures [lo] result0 <= M51
//@   ensures [hi] result1 <= a * b / 2^51

//@ func (*Element).Mult32(v, x, y)
//@   leak none
//@   mode lia
//@   requires [inv] inv(x)
//@   assigns *v
//@   ensures [receiver] result == v
//@   ensures [inv] inv(v)
//@   ensures [value] cong(lv(v), lv(x) * y, P)

//@ func (*Element).Zero(v)
//@   leak none
//@   mode lia
//@   assigns *v
//@   ensures [receiver] result == v
//@   ensures [value] iszero(v)

//@ func (*Element).One(v)
//@   leak none
//@   mode lia
//@   assigns *v
//@   ensures [receiver] result == v
//@   ensures [value] isone(v)

//@ func (*Element).Set(v, a)
//@   leak none
//@   mode lia
//@   assigns *v
//@   ensures [receiver] result == v
//@   ensures [value] eqlimbs(v, a)

//@ func (*Element).reduce(v)
//@   leak none
//@   mode lia
//@   requires [inv] inv(v)
//@   assigns *v
//@   ensures [receiver] result == v
//@   ensures [canon] canon(v)
//@   ensures [value] lv(v) == lv(old(v)) % P

//@ func mask64Bits(cond)
//@   leak none
//@   mode bv
//@   requires [cond] cond == 0 || cond == 1
//@   ensures [one] cond == 1 ==> result == 2^64 - 1
//@   ensures [zero] cond == 0 ==> result == 0

//@ func (*Element).Select(v, a, b, cond)
//@   leak none
//@   mode bv
//@   requires [cond] cond == 0 || cond == 1
//@   casesplit cond in 0..2
//@   assigns *v
//@   ensures [receiver] result == v
//@   ensures [one] cond == 1 ==> eqlimbs(v, a)
//@   ensures [zero] cond == 0 ==> eqlimbs(v, b)

//@ func (*Element).Swap(v, u, cond)
//@   leak none
//@   mode bv
//@   requires [cond] cond == 0 || cond == 1
//@   casesplit cond in 0..2
//@   assigns *v, *u
//@   ensures [one] cond == 1 ==> eqlimbs(v, old(u)) && eqlimbs(u, old(v))
//@   ensures [zero] cond == 0 ==> eqlimbs(v, old(v)) && eqlimbs(u, old(u))

//@ func (*Element).SetBytes(v, x)
//@   leak none
//@   mode bv
//@   casesplit len(x) == 32
//@   assigns *v
//@   ensures [badlen] len(x) != 32 ==> isnil(result0) && !isnil(result1) && unchanged(*v)
//@   ensures [ok] len(x) == 32 ==> result0 == v && isnil(result1)
//@   ensures [value] len(x) == 32 ==> lv(v) == le(x, 32) % 2^255
//@   ensures [limbs] len(x) == 32 ==> small(v)

//@ func (*Element).bytes(v, out)
//@   leak none
//@   mode bv
//@   requires [inv] inv(v)
//@   requires [zeroed] forall i in 0..32: out[i] == 0
//@   assigns *out
//@   ensures [slice] result == sliceof(out, 0, 32)
//@   ensures [value] le(out, 32) == lv(v) % P

//@ func (*Element).Bytes(v)
//@   leak none
//@   mode bv
//@   requires [inv] inv(v)
//@   ensures [fresh] fresh(result)
//@   ensures [len] len(result) == 32
//@   ensures [value] le(result, 32) == lv(v) % P

//@ func (*Element).Equal(v, u)
//@   leak none
//@   mode bv
//@   requires [inv] inv(v) && inv(u)
//@   ensures [bit] 0 <= result && result <= 1
//@   ensures [iff] result == 1 <==> lv(v) % P == lv(u) % P

//@ func (*Element).IsNegative(v)
//@   leak none
//@   mode bv
//@   requires [inv] inv(v)
//@   ensures [bit] 0 <= result && result <= 1
//@   ensures [value] result == (lv(v) % P) % 2

//@ func (*Element).Absolute(v, u)
//@   leak none
//@   mode lia
//@   requires [inv] inv(u)
//@   casesplit (lv(u) % P) % 2 in 0..2
//@   assigns *v
//@   ensures [receiver] result == v
//@   ensures [inv] inv(v)
//@   ensures [pos] (lv(u) % P) % 2 == 0 ==> eqlimbs(v, u)
//@   ensures [neg] (lv(u) % P) % 2 == 1 ==> cong(lv(v), 0 - lv(u), P)
//@   ensures [even] (lv(v) % P) % 2 == 0

//@ func (*Element).SetWideBytes(v, x)
//@   leak none
//@   mode lia
//@   casesplit len(x) == 64
//@   assigns *v
//@   ensures [badlen] len(x) != 64 ==> isnil(result0) && !isnil(result1) && unchanged(*v)
//@   ensures [ok] len(x) == 64 ==> result0 == v && isnil(result1)
//@   ensures [value] len(x) == 64 ==> cong(lv(v), le(x, 64), P)
//@   ensures [tight] len(x) == 64 ==> tight(v)

//@ globalinv [X:sqrtM1] inv(sqrtM1) && cong(lv(sqrtM1) * lv(sqrtM1), 0 - 1, P)

//@ func (*Element).Invert(v, z)
//@   leak none
//@   mode ring
//@   requires [inv] inv(z)
//@   assigns *v
//@   ensures [receiver] result == v
//@   ensures [tight] tight(v)
//@   ensures [value] cong(lv(v), fpow(lv(z), P - 2), P)

//@ func (*Element).Pow22523(v, x)
//@   leak none
//@   mode ring
//@   requires [inv] inv(x)
//@   assigns *v
//@   ensures [receiver] result == v
//@   ensures [tight] tight(v)
//@   ensures [value] cong(lv(v), fpow(lv(x), (P - 5) / 8), P)

//@ func (*Element).SqrtRatio(r, u, v)
//@   leak none
//@   mode ring
//@   requires [inv] inv(u) && inv(v)
//@   assigns *r
//@   ensures [receiver] result0 == r
//@   ensures [tight] inv(r)
//@   ensures [bit] 0 <= result1 && result1 <= 1
//@   ensures [even] (lv(r) % P) % 2 == 0
//@   ensures [square] result1 == 1 ==> cong(lv(v) * lv(r) * lv(r), lv(u), P)
//@   ensures [nonsquare] result1 == 0 ==> (cong(lv(v), 0, P) && !cong(lv(u), 0, P) && cong(lv(r), 0, P)) || (!cong(lv(v), 0, P) && !cong(lv(u), 0, P) && cong(lv(v) * lv(r) * lv(r), lv(sqrtM1) * lv(u), P))
//@   ensures [zero] cong(lv(u), 0, P) ==> result1 == 1 && cong(lv(r), 0, P)
