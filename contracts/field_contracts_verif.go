//go:build verif

// Contracts for package field, checked by /verif/govc (contract-based deductive
// verification).  This file contains only comments: with or without the `verif`
// build tag it adds no symbol to the package.
//
// Syntax: see /verif/govc/cparse.py.  In `ensures`, a parameter that is not named
// in `assigns` denotes its value at entry (old); `v.l0` of an assigned receiver is
// the final value.  Each function is verified under every alias partition of its
// pointer parameters.
package field

//@ const P = 2^255 - 19
//@ const B = 2^52 - 38
//@ const M51 = 2^51 - 1
//@ define lv(e) = e.l0 + e.l1*2^51 + e.l2*2^102 + e.l3*2^153 + e.l4*2^204
//@ define inv(e) = e.l0 <= B && e.l1 <= B && e.l2 <= B && e.l3 <= B && e.l4 <= B
//@ define tight(e) = e.l0 < 2^51 + 2^18 && e.l1 < 2^51 + 2^13 && e.l2 < 2^51 + 2^13 && e.l3 < 2^51 + 2^13 && e.l4 < 2^51 + 2^13
//@ define canon(e) = e.l0 <= M51 && e.l1 <= M51 && e.l2 <= M51 && e.l3 <= M51 && e.l4 <= M51 && lv(e) < P
//@ define v128(x) = x.lo + x.hi*2^64

//@ globalinv [feZero] feZero.l0 == 0 && feZero.l1 == 0 && feZero.l2 == 0 && feZero.l3 == 0 && feZero.l4 == 0
//@ globalinv [feOne] feOne.l0 == 1 && feOne.l1 == 0 && feOne.l2 == 0 && feOne.l3 == 0 && feOne.l4 == 0

//@ func mul64(a, b)
//@   mode lia
//@   ensures [value] v128(result) == a * b
//@   ensures [lo] result.lo < 2^64

//@ func addMul64(v, a, b)
//@   mode lia
//@   requires [fits] v128(v) + a * b < 2^128
//@   ensures [value] v128(result) == v128(v) + a * b

//@ func shiftRightBy51(a)
//@   mode lia
//@   requires [fits] v128(a) < 2^115
//@   ensures [value] result == v128(a) / 2^51

//@ func (*Element).carryPropagateGeneric(v)
//@   mode lia
//@   assigns *v
//@   ensures [receiver] result == v
//@   ensures [cong] cong(lv(v), lv(old(v)), P)
//@   ensures [l0] v.l0 <= M51 + 19 * (old(v).l4 / 2^51)
//@   ensures [l1] v.l1 <= M51 + old(v).l0 / 2^51
//@   ensures [l2] v.l2 <= M51 + old(v).l1 / 2^51
//@   ensures [l3] v.l3 <= M51 + old(v).l2 / 2^51
//@   ensures [l4] v.l4 <= M51 + old(v).l3 / 2^51
//@   ensures [tight] tight(v)

//@ func (*Element).carryPropagate(v)
//@   mode lia
//@   assigns *v
//@   ensures [receiver] result == v
//@   ensures [cong] cong(lv(v), lv(old(v)), P)
//@   ensures [l0] v.l0 <= M51 + 19 * (old(v).l4 / 2^51)
//@   ensures [l1] v.l1 <= M51 + old(v).l0 / 2^51
//@   ensures [l2] v.l2 <= M51 + old(v).l1 / 2^51
//@   ensures [l3] v.l3 <= M51 + old(v).l2 / 2^51
//@   ensures [l4] v.l4 <= M51 + old(v).l3 / 2^51
//@   ensures [tight] tight(v)

//@ func (*Element).Add(v, a, b)
//@   mode lia
//@   requires [inv] inv(a) && inv(b)
//@   assigns *v
//@   ensures [receiver] result == v
//@   ensures [tight] tight(v)
//@   ensures [value] cong(lv(v), lv(a) + lv(b), P)

//@ func (*Element).Subtract(v, a, b)
//@   mode lia
//@   requires [inv] inv(a) && inv(b)
//@   assigns *v
//@   ensures [receiver] result == v
//@   ensures [tight] tight(v)
//@   ensures [value] cong(lv(v), lv(a) - lv(b), P)

//@ func (*Element).Negate(v, a)
//@   mode lia
//@   requires [inv] inv(a)
//@   assigns *v
//@   ensures [receiver] result == v
//@   ensures [tight] tight(v)
//@   ensures [value] cong(lv(v), 0 - lv(a), P)
