// Copyright (c) 2017 The Go Authors. All rights reserved.
// Use of this source code is governed by a BSD-style
// license that can be found in the LICENSE file.

//go:build verif

package edwards25519

// The two functions below exist only in builds with the verif tag.  They compose
// the exported encoding and decoding functions so that the round-trip statements
// (decode after encode, encode after decode) can be stated as contracts on a
// function and discharged against the contracts of Bytes and SetBytes.  Nothing
// calls them.

func govcEncodeDecode(v, p *Point) (*Point, error) {
	return v.SetBytes(p.Bytes())
}

func govcDecodeEncode(v *Point, x []byte) ([]byte, error) {
	if _, err := v.SetBytes(x); err != nil {
		return nil, err
	}
	return v.Bytes(), nil
}
