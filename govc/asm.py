"""Front end for the Plan 9 amd64 assembly of field/fe_amd64.s.

The file is parsed on every run; each TEXT block is interpreted instruction by
instruction over the same symbolic state / domain as the Go front end.  Supported:
MOVQ, MULQ, IMUL3Q, ADDQ, ADCQ, SHLQ (2- and 3-operand), SHRQ, ANDQ, RET with
operands `$imm`, register, `k(REG)` where REG holds an argument pointer, and
`name+k(FP)`.  Anything else is reported as `asm.unsupported` (an undischarged
obligation), so a rewrite of the assembly cannot slip through unverified.
"""
import os
import re

from .terms import Poly, mk_and
from .domains import Unsupported, type_range
from .symex import Ptr, VerifError, PathEnd

REGS = {"AX", "BX", "CX", "DX", "SI", "DI", "BP", "R8", "R9", "R10", "R11", "R12", "R13", "R14", "R15"}
ALLOWED = {"MOVQ", "MULQ", "IMUL3Q", "ADDQ", "ADCQ", "SHLQ", "SHRQ", "ANDQ", "RET"}


def parse_asm(path):
    """returns {funcname: {'instrs': [(mnemonic, [operands], lineno)], 'frame': str}}"""
    funcs = {}
    cur = None
    if not os.path.exists(path):
        return funcs
    for ln, raw in enumerate(open(path).read().split("\n"), 1):
        s = raw.split("//")[0].strip()
        if not s or s.startswith("#"):
            continue
        m = re.match(r"^TEXT\s+·(\w+)\(SB\)\s*,\s*([\w|]+)\s*,\s*\$(\S+)$", s)
        if m:
            cur = {"instrs": [], "flags": m.group(2), "frame": m.group(3), "line": ln}
            funcs[m.group(1)] = cur
            continue
        if cur is None:
            continue
        parts = s.split(None, 1)
        mn = parts[0]
        ops = [o.strip() for o in parts[1].split(",")] if len(parts) > 1 else []
        cur["instrs"].append((mn, ops, ln))
    return funcs


class AsmExec:
    def __init__(self, run, st, body, fname):
        self.run = run
        self.st = st
        self.body = body
        self.fname = fname
        self.dom = run.dom
        self.regs = {}
        self.cf = None
        self.params = run.f["params"]

    def unsupported(self, what, ln):
        self.run.add_named(self.st, "asm", "asm.unsupported", "fe_amd64.s:%d" % ln, False, what)
        raise PathEnd()

    def rd(self, op, ln):
        st = self.st
        if op.startswith("$"):
            return Poly.const(int(op[1:], 0))
        if op in REGS:
            if op not in self.regs:
                self.unsupported("read of uninitialised register %s" % op, ln)
            return self.regs[op]
        m = re.match(r"^(\w+)\+(\d+)\(FP\)$", op)
        if m:
            idx = int(m.group(2)) // 8
            if idx >= len(self.params) or self.params[idx]["name"] != m.group(1):
                self.unsupported("FP operand %s does not name parameter %d" % (op, idx), ln)
            return self.run.param_vals[self.params[idx]["name"]]
        m = re.match(r"^(\d*)\((\w+)\)$", op)
        if m:
            base = self.regs.get(m.group(2))
            if not isinstance(base, Ptr):
                self.unsupported("memory operand %s whose base is not an argument pointer" % op, ln)
            off = int(m.group(1) or 0)
            if off % 8 or not 0 <= off // 8 < 5:
                self.unsupported("memory operand %s outside the Element" % op, ln)
            return self.run.load(st, Ptr(base.obj, base.path + (off // 8,)), None, "fe_amd64.s:%d" % ln)
        self.unsupported("operand %s" % op, ln)

    def wr(self, op, val, ln):
        if op in REGS:
            self.regs[op] = val
            return
        m = re.match(r"^(\d*)\((\w+)\)$", op)
        if m:
            base = self.regs.get(m.group(2))
            if not isinstance(base, Ptr):
                self.unsupported("store through %s which is not an argument pointer" % op, ln)
            off = int(m.group(1) or 0)
            if off % 8 or not 0 <= off // 8 < 5:
                self.unsupported("store %s outside the Element" % op, ln)
            self.run.store(self.st, Ptr(base.obj, base.path + (off // 8,)), val, "fe_amd64.s:%d" % ln)
            return
        self.unsupported("destination %s" % op, ln)

    def exact(self, r, ln, what):
        lo, hi = 0, (1 << 64) - 1
        c = self.dom.concrete(r)
        if c is None or not (lo <= c <= hi):
            self.st.oblige("nowrap", "fe_amd64.s:%d" % ln, mk_and(("<=", Poly.const(lo), r), ("<=", r, Poly.const(hi))), what)
        return r

    def run_body(self):
        from .calls import lib_mul64, lib_add64
        st, dom = self.st, self.dom
        ins = self.body["instrs"]
        if self.run.mode != "lia":
            raise VerifError("assembly is verified in lia mode")
        for k, (mn, ops, ln) in enumerate(ins):
            nxt = ins[k + 1][0] if k + 1 < len(ins) else None
            site = "fe_amd64.s:%d" % ln
            if mn not in ALLOWED:
                self.unsupported("instruction %s is not in the allow-list" % mn, ln)
            if mn == "RET":
                return
            if mn == "MOVQ":
                self.wr(ops[1], self.rd(ops[0], ln), ln)
            elif mn == "MULQ":
                hi, lo = lib_mul64(self.run, st, [self.regs["AX"], self.rd(ops[0], ln)], {})
                self.regs["DX"], self.regs["AX"] = hi, lo
                self.cf = None
            elif mn == "IMUL3Q":
                v = self.rd(ops[1], ln) * self.rd(ops[0], ln)
                self.wr(ops[2], self.exact(v, ln, "IMUL3Q result fits 64 bits"), ln)
                self.cf = None
            elif mn == "ADDQ":
                a, b = self.rd(ops[1], ln), self.rd(ops[0], ln)
                if nxt == "ADCQ":
                    s, c = lib_add64(self.run, st, [a, b, Poly.const(0)], {})
                    self.wr(ops[1], s, ln)
                    self.cf = c
                else:
                    self.wr(ops[1], self.exact(a + b, ln, "ADDQ does not carry (its carry is never consumed)"), ln)
                    self.cf = None
            elif mn == "ADCQ":
                if self.cf is None:
                    self.unsupported("ADCQ without a preceding ADDQ/ADCQ", ln)
                a, b = self.rd(ops[1], ln), self.rd(ops[0], ln)
                if nxt == "ADCQ":
                    s, c = lib_add64(self.run, st, [a, b, self.cf], {})
                    self.wr(ops[1], s, ln)
                    self.cf = c
                else:
                    self.wr(ops[1], self.exact(a + b + self.cf, ln, "final ADCQ does not carry out"), ln)
                    self.cf = None
            elif mn == "SHLQ":
                k_ = dom.concrete(self.rd(ops[0], ln))
                if k_ is None or not 0 < k_ < 64:
                    self.unsupported("SHLQ by non-constant", ln)
                if len(ops) == 2:
                    v = self.rd(ops[1], ln) * (1 << k_)
                    self.wr(ops[1], self.exact(v, ln, "SHLQ loses no bits"), ln)
                else:
                    lo, hi = self.rd(ops[1], ln), self.rd(ops[2], ln)
                    q, _ = dom.divmod_pow2(st, lo, 64 - k_)
                    v = hi * (1 << k_) + q
                    self.wr(ops[2], self.exact(v, ln, "double shift loses no bits of the high word"), ln)
                self.cf = None
            elif mn == "SHRQ":
                k_ = dom.concrete(self.rd(ops[0], ln))
                if k_ is None or not 0 < k_ < 64:
                    self.unsupported("SHRQ by non-constant", ln)
                q, _ = dom.divmod_pow2(st, self.rd(ops[1], ln), k_)
                self.wr(ops[1], q, ln)
                self.cf = None
            elif mn == "ANDQ":
                m = dom.concrete(self.rd(ops[0], ln))
                if m is None or m & (m + 1):
                    self.unsupported("ANDQ with a non-mask operand", ln)
                _, r = dom.divmod_pow2(st, self.rd(ops[1], ln), (m + 1).bit_length() - 1)
                self.wr(ops[1], r, ln)
                self.cf = None
        self.unsupported("fell off the end of the TEXT block without RET", ins[-1][2] if ins else 0)


def leak_obligations(body):
    """C03/C20 structural facts about an assembly body: straight-line, allow-listed, addresses from arguments only"""
    facts = []
    for mn, ops, ln in body["instrs"]:
        facts.append((ln, mn in ALLOWED, mn))
    return facts
