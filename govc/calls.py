"""Call handling: assumed contracts of library routines (T-lib) and modular application
of the callee's own contract (requires -> obligation, assigns -> havoc, ensures -> assume)."""
from .terms import Poly, mk_and, mk_or, mk_not, mk_implies
from .domains import Unsupported, bvc
from .symex import Ptr, SliceV, Comp, Iface, FuncV, NIL, VerifError, PathEnd
from . import ssa as S
from .cparse import parse_expr, split_label
import re


def do_call(run, st, ins):
    fn = ins["fn"]
    reg = ins.get("reg")
    site = ins.get("pos", "")
    args = [run.val(st, a) for a in ins["args"]]
    if ins.get("invoke"):
        raise Unsupported("interface method call %s" % ins["invoke"])
    if fn["k"] == "builtin":
        st.regs[reg] = builtin(run, st, fn["n"], args, ins)
        return
    if fn["k"] == "func":
        name = fn["n"]
        if name in LIB:
            st.regs[reg] = LIB[name](run, st, args, ins)
            run.V.lib_used.add(name)
            return
        callee = run.prog.funcs.get(name)
        if callee is not None and run.V.contract_for(callee) is None and callee.get("hasBody"):
            run.push_frame(st, callee, args, ins)
            return
        st.regs[reg] = apply_contract(run, st, name, args, ins)
        return
    if fn["k"] in ("reg", "param"):
        f = run.val(st, fn)
        if isinstance(f, FuncV):
            st.regs[reg] = apply_contract(run, st, f.name, args, ins, bindings=f.bindings)
            return
    raise Unsupported("call of %r" % (fn,))


def builtin(run, st, name, args, ins):
    dom = run.dom
    if name == "ssa:deferstack":
        return None
    if name == "len":
        x = args[0]
        if isinstance(x, SliceV):
            return x.len
        if isinstance(x, tuple) and x and x[0] == "str":
            return run.mk_int(len(x[1]), 64)
        raise Unsupported("len of %r" % (x,))
    if name == "cap":
        return args[0].cap
    if name == "copy":
        dst, src = args
        nd, ns = dom.concrete(dst.len), dom.concrete(src.len)
        if nd is None or ns is None:
            return copy_symbolic(run, st, dst, src, ins)
        n = min(nd, ns)
        do, so = dom.concrete(dst.off), dom.concrete(src.off)
        vals = []
        et = run.objs[src.obj].ty if run.objs[src.obj].lazy else None
        for i in range(n):
            vals.append(run.load(st, Ptr(src.obj, src.path + (so + i,))))
        for i in range(n):
            run.store(st, Ptr(dst.obj, dst.path + (do + i,)), vals[i], ins.get("pos", ""))
        return run.mk_int(n, 64)
    if name == "append":
        dst, src = args[0], args[1]
        if isinstance(src, tuple) and src and src[0] == "str":
            raise Unsupported("append of a string")
        nd, ns = dom.concrete(dst.len), dom.concrete(src.len)
        do, so = dom.concrete(dst.off), dom.concrete(src.off)
        if nd is None or ns is None or do is None or so is None:
            raise Unsupported("append with symbolic lengths")
        site = ins.get("pos", "")
        fits = run.int_cmp("<=", run.mk_int(nd + ns, 64), dst.cap, True)
        if fits is not True and fits is not False:
            key = ("append", st.frame_tag, ins.get("reg"), st.block)
            tr = st.decided.get(key)
            if tr is None:
                # the capacity decides whether the caller's backing array is written: both cases are explored
                for pol in (True, False):
                    s2 = st.fork()
                    s2.pc -= 1
                    s2.decided[key] = pol
                    s2.assume(fits if pol else mk_not(fits))
                    run.work.append(s2)
                raise PathEnd()
            del st.decided[key]
            fits = tr
        vals = [run.load(st, Ptr(src.obj, src.path + (so + i,))) for i in range(ns)]
        if fits:
            for i in range(ns):
                run.store(st, Ptr(dst.obj, dst.path + (do + nd + i,)), vals[i], site)
            return SliceV(dst.obj, dst.path, dst.off, run.mk_int(nd + ns, 64), dst.cap)
        et = run.loc_type(dst.obj, dst.path + (do,)) if nd else run.loc_type(src.obj, src.path + (so,))
        o = run.new_obj(et, "append", "alloc", lazy=True, oid=run.site_oid(st, "append", str(ins.get("reg"))))
        for i in range(nd):
            st.mem[(o, (i,))] = run.load(st, Ptr(dst.obj, dst.path + (do + i,)))
        for i in range(ns):
            st.mem[(o, (nd + i,))] = vals[i]
        return SliceV(o, (), run.mk_int(0, 64), run.mk_int(nd + ns, 64), run.mk_int(nd + ns, 64))
    raise Unsupported("builtin %s" % name)


def copy_symbolic(run, st, dst, src, ins):
    """copy with a symbolic source length bounded by a concrete destination length:
    dst[i] = i < len(src) ? src[i] : dst[i]"""
    dom = run.dom
    nd = dom.concrete(dst.len)
    do, so = dom.concrete(dst.off), dom.concrete(src.off)
    if nd is None or do is None or so is None:
        raise Unsupported("copy with symbolic destination")
    ns = src.len
    et = run.loc_type(dst.obj, dst.path + (do,))
    ii = run.prog.int_info(et)
    if not ii:
        raise Unsupported("symbolic copy of non-integers")
    # the element reads are guarded: cell i of src is only meaningful when i < len(src)
    for i in range(nd):
        c = run.int_cmp("<", run.mk_int(i, 64), ns, True)
        if c is False:
            continue
        sv = run.load(st, Ptr(src.obj, src.path + (so + i,)))
        dv = run.load(st, Ptr(dst.obj, dst.path + (do + i,)))
        run.store(st, Ptr(dst.obj, dst.path + (do + i,)), dom.ite(st, c, sv, dv, ii[0], ii[1]), ins.get("pos", ""))
    if run.mode == "bv":
        lt = run.int_cmp("<", ns, run.mk_int(nd, 64), True)
        return dom.ite(st, lt, ns, run.mk_int(nd, 64), 64, True)
    lt = run.int_cmp("<", ns, run.mk_int(nd, 64), True)
    return dom.ite(st, lt, ns, run.mk_int(nd, 64), 64, True)


# ------------------------------------------------------------------ library models (assumed contracts)

def lib_mul64(run, st, args, ins):
    x, y = args
    dom = run.dom
    if run.mode == "bv":
        p = dom.mk("bvmul", ("zext", 64, x) if dom.concrete(x) is None else bvc(dom.concrete(x), 128),
                   ("zext", 64, y) if dom.concrete(y) is None else bvc(dom.concrete(y), 128))
        return (dom.resize(dom.mk("bvlshr", p, bvc(64, 128)), 64, False), dom.resize(p, 64, False))
    cx, cy = dom.concrete(x), dom.concrete(y)
    if cx is not None and cy is not None:
        return (Poly.const((cx * cy) >> 64), Poly.const((cx * cy) & ((1 << 64) - 1)))
    prod = x * y
    plo, phi = dom.interval(st, prod)
    hi_max = None if phi is None else phi >> 64
    hi = dom.fresh(st, "mulhi", 64, False, 0, hi_max)
    lo = dom.fresh(st, "mullo", 64, False)
    st.assume(("=", hi * (1 << 64) + lo, prod))
    return (hi, lo)


def lib_add64(run, st, args, ins):
    x, y, c = args
    dom = run.dom
    if run.mode == "bv":
        s = dom.mk("bvadd", dom.mk("bvadd", dom.resize(x, 65, False), dom.resize(y, 65, False)), dom.resize(c, 65, False))
        return (dom.resize(s, 64, False), dom.resize(dom.mk("bvlshr", s, bvc(64, 65)), 64, False))
    tot = x + y + c
    ct = dom.concrete(tot)
    if ct is not None:
        return (Poly.const(ct & ((1 << 64) - 1)), Poly.const(ct >> 64))
    s = dom.fresh(st, "sum", 64, False)
    lo, hi = dom.interval(st, tot)
    if hi is not None and hi < (1 << 64):
        co = Poly.const(0)
    else:
        co = dom.fresh(st, "carry", 64, False, 0, 1 if hi is None or hi < (1 << 65) else (hi >> 64))
    st.assume(("=", s + co * (1 << 64), tot))
    return (s, co)


def lib_sub64(run, st, args, ins):
    x, y, b = args
    dom = run.dom
    if run.mode == "bv":
        d = dom.mk("bvsub", dom.mk("bvsub", dom.resize(x, 65, False), dom.resize(y, 65, False)), dom.resize(b, 65, False))
        return (dom.resize(d, 64, False), dom.resize(dom.mk("bvlshr", d, bvc(64, 65)), 64, False))
    tot = x - y - b
    ct = dom.concrete(tot)
    if ct is not None:
        return (Poly.const(ct & ((1 << 64) - 1)), Poly.const(1 if ct < 0 else 0))
    d = dom.fresh(st, "diff", 64, False)
    bo = dom.fresh(st, "borrow", 64, False, 0, 1)
    st.assume(("=", d - bo * (1 << 64), tot))
    return (d, bo)


def lib_le_uint64(run, st, args, ins):
    # (binary.littleEndian).Uint64(b []byte) uint64 ; requires len(b) >= 8
    sl = args[-1]
    dom = run.dom
    site = ins.get("pos", "")
    g = run.int_cmp(">=", sl.len, run.mk_int(8, 64), True)
    if g is not True:
        st.oblige("bounds", site, g, "binary.LittleEndian.Uint64 needs 8 bytes")
    off = dom.concrete(sl.off)
    if off is None:
        raise Unsupported("Uint64 of slice with symbolic offset")
    bs = [run.load(st, Ptr(sl.obj, sl.path + (off + i,))) for i in range(8)]
    if run.mode == "bv":
        r = None
        for b in reversed(bs):
            r = b if r is None else ("concat", r, b)
        cs = [dom.concrete(b) for b in bs]
        if all(c is not None for c in cs):
            return bvc(sum(c << (8 * i) for i, c in enumerate(cs)), 64)
        return r
    r = Poly.const(0)
    for i, b in enumerate(bs):
        r = r + b * (1 << (8 * i))
    return r


def lib_le_putuint64(run, st, args, ins):
    sl, v = args[-2], args[-1]
    dom = run.dom
    site = ins.get("pos", "")
    g = run.int_cmp(">=", sl.len, run.mk_int(8, 64), True)
    if g is not True:
        st.oblige("bounds", site, g, "binary.LittleEndian.PutUint64 needs 8 bytes")
    off = dom.concrete(sl.off)
    if off is None:
        raise Unsupported("PutUint64 with symbolic offset")
    for i in range(8):
        if run.mode == "bv":
            c = dom.concrete(v)
            b = bvc((c >> (8 * i)) & 0xff, 8) if c is not None else ("extract", 8 * i + 7, 8 * i, v)
        else:
            _, r = dom.divmod_pow2(st, v, 8 * (i + 1))
            q, _ = dom.divmod_pow2(st, r, 8 * i) if i else (r, None)
            # byte i = floor(v / 2^(8i)) mod 256
            qq, _ = dom.divmod_pow2(st, v, 8 * i)
            _, b = dom.divmod_pow2(st, qq, 8)
        run.store(st, Ptr(sl.obj, sl.path + (off + i,)), b, site)
    return None


def lib_ct_byte_eq(run, st, args, ins):
    x, y = args
    dom = run.dom
    c = run.int_cmp("==", x, y, False)
    return dom.ite(st, c, run.mk_int(1, 64), run.mk_int(0, 64), 64, True)


def lib_ct_eq(run, st, args, ins):
    """subtle.ConstantTimeEq(x, y int32) int"""
    x, y = args
    c = run.int_cmp("==", x, y, True)
    return run.dom.ite(st, c, run.mk_int(1, 64), run.mk_int(0, 64), 64, True)


def lib_ct_select(run, st, args, ins):
    """subtle.ConstantTimeSelect(v, x, y int) int: x if v == 1, y if v == 0 (undefined otherwise: obligation)"""
    v, x, y = args
    is1 = run.int_cmp("==", v, run.mk_int(1, 64), True)
    is0 = run.int_cmp("==", v, run.mk_int(0, 64), True)
    st.oblige("pre", ins.get("pos", ""), mk_or(is0, is1), "ConstantTimeSelect is called with v in {0,1}")
    return run.dom.ite(st, is1, x, y, 64, True)


def lib_ct_compare(run, st, args, ins):
    x, y = args
    dom = run.dom
    nx, ny = dom.concrete(x.len), dom.concrete(y.len)
    if nx is None or ny is None:
        raise Unsupported("ConstantTimeCompare of symbolic lengths")
    if nx != ny:
        return run.mk_int(0, 64)
    ox, oy = dom.concrete(x.off), dom.concrete(y.off)
    eq = True
    for i in range(nx):
        a = run.load(st, Ptr(x.obj, x.path + (ox + i,)))
        b = run.load(st, Ptr(y.obj, y.path + (oy + i,)))
        eq = mk_and(eq, run.int_cmp("==", a, b, False))
    return dom.ite(st, eq, run.mk_int(1, 64), run.mk_int(0, 64), 64, True)


def lib_errors_new(run, st, args, ins):
    return Iface(False, "error")


def lib_once_do(run, st, args, ins):
    """(*sync.Once).Do(f): assumed contract (T-lib) -- f has run to completion exactly once before Do returns;
    modelled by applying the contract of the function literal"""
    f = args[1]
    if not isinstance(f, FuncV):
        raise Unsupported("Once.Do of a non-literal function")
    fake = {"fn": {"k": "func", "n": f.name}, "args": [], "pos": ins.get("pos", ""), "reg": None}
    return apply_contract(run, st, f.name, list(f.bindings), fake)


LIB = {
    "(*sync.Once).Do": lib_once_do,
    "math/bits.Mul64": lib_mul64,
    "math/bits.Add64": lib_add64,
    "math/bits.Sub64": lib_sub64,
    "(encoding/binary.littleEndian).Uint64": lib_le_uint64,
    "(encoding/binary.littleEndian).PutUint64": lib_le_putuint64,
    "crypto/subtle.ConstantTimeByteEq": lib_ct_byte_eq,
    "crypto/subtle.ConstantTimeEq": lib_ct_eq,
    "crypto/subtle.ConstantTimeSelect": lib_ct_select,
    "crypto/subtle.ConstantTimeCompare": lib_ct_compare,
    "errors.New": lib_errors_new,
}


# ------------------------------------------------------------------ contracts of the repository's own functions

def apply_contract(run, st, name, args, ins, bindings=None):
    from .ceval import Evaluator, Ref, SRef, MInt, wrap_typed
    V = run.V
    prog = run.prog
    callee = prog.funcs.get(name)
    if callee is None:
        raise Unsupported("call of unknown function %s" % name)
    c = V.contract_for(callee)
    if c is None:
        raise VerifError("%s calls %s which has no contract" % (run.fname, name))
    cname = V.display_name(callee)
    site = ins.get("pos", "")
    run.V.note_call(run.fname, cname)
    # `errcases resultK`: whether the error result is nil is decided inside the callee (not by an entry-state
    # condition); the caller is verified once for each outcome (the call is re-executed on both forks)
    errcase = {}
    for kind, txt in c.other:
        if kind == "errcases":
            rn_ = txt.strip()
            key = ("errcase", rn_, st.frame_tag, ins.get("reg"), st.block)
            pol = st.decided.get(key)
            if pol is None:
                for pol in (True, False):
                    s2 = st.fork()
                    s2.pc -= 1
                    s2.decided[key] = pol
                    run.work.append(s2)
                raise PathEnd()
            errcase[rn_] = pol
    env = {}
    for i, p in enumerate(callee["params"]):
        nm = c.params[i] if i < len(c.params) else p["name"]
        env[nm] = wrap_typed(prog, args[i], p["type"])
    # ghost (universally quantified) field elements of the callee's contract: instantiated by the caller's
    # `instantiate <callee> g = expr, ...` clause, else by a fresh value (any instance of a proved universal
    # statement may be assumed)
    ghosts = [g.strip() for kind, txt in c.other if kind == "ghost" for g in txt.split(",") if g.strip()]
    if ghosts and not c.variant:
        from .symex import ELEMENT
        key = ("ghostinst", st.frame_tag, ins.get("reg"), st.block, ins.get("pos", ""))
        have = st.cache.get(key)
        if have is None:
            inst = {}
            for kind, txt in run.c.other:
                if kind != "instantiate":
                    continue
                target, _, rest = txt.strip().partition(" ")
                if not (cname == target or cname.endswith("." + target) or short(cname).endswith("." + target)):
                    continue
                from .cparse import split_top
                for part in split_top(rest):
                    g, _, e = part.partition("=")
                    inst[g.strip()] = parse_expr(e.strip())
            have = {}
            evc = Evaluator(run, st, run.old_mem, run.contract_env(st), phase="pre")
            evc.pkg = run.f.get("pkg", "")
            for g in ghosts:
                o = run.new_obj(ELEMENT, "ghost:" + g, "alloc", oid=run.site_oid(st, "ghost:" + g, str(ins.get("reg"))))
                if g in inst and run.mode == "ring":
                    from .ring import RVal
                    val = evc.ev(inst[g], False)
                    poly = evc.ring_of(val)
                    if poly is None:
                        raise VerifError("instantiation of ghost %s of %s is not a field value" % (g, cname))
                    st.mem[(o, ())] = RVal(poly, 0, None)
                else:
                    run.init_obj_fresh(st, o, g)
                have[g] = o
            st.cache[key] = have
        for g, o in have.items():
            env[g] = Ptr(o)
    pre_mem = dict(st.mem)
    ev0 = Evaluator(run, st, pre_mem, env, phase="pre")
    ev0.pkg = c.pkg
    # case splits requested by the callee's contract: the caller's path is forked so that the
    # split expression is concrete on each branch (the call instruction is re-executed)
    for kind, txt in c.other:
        if kind != "casesplit" or (run.mode == "group" and c.mode != "group"):
            continue
        m = re.match(r"^(.*)\s+in\s+(-?\d+)\s*\.\.\s*(-?\d+)$", txt)
        if m:
            e = ev0.int(parse_expr(m.group(1)))
            if run.dom.concrete(e) is not None:
                continue
            lo, hi = int(m.group(2)), int(m.group(3))
            rng = mk_and(run.dom.s_cmp("<=", run.dom.s_const(lo), e), run.dom.s_cmp("<", e, run.dom.s_const(hi)))
            run.add_named(st, "pre", "pre.%s.casesplit" % short(cname), site, rng, "case split of %s over %d..%d is exhaustive" % (cname, lo, hi))
            for k in range(lo, hi):
                s2 = st.fork()
                s2.pc -= 1
                s2.assume(run.dom.s_cmp("==", e, run.dom.s_const(k)))
                run.work.append(s2)
            raise PathEnd()
        else:
            b = ev0.bool(parse_expr(txt))
            if b is True or b is False or st.truth(b) is not None:
                continue
            for pol in (True, False):
                s2 = st.fork()
                s2.pc -= 1
                s2.assume(b if pol else mk_not(b))
                run.work.append(s2)
            raise PathEnd()
    # panics of the callee: the caller panics too on that branch
    for kind, txt in c.other:
        if kind != "panics":
            continue
        lab, e = split_label(txt)
        b = ev0.bool(parse_expr(e))
        tr = b if isinstance(b, bool) else st.truth(b)
        if tr is False:
            continue
        if tr is True:
            run.at_panic(st, ins)
            raise PathEnd()
        s2 = st.fork()
        s2.assume(b)
        run.at_panic(s2, ins)
        st.assume(mk_not(b))
    gview = run.mode == "group" and c.mode != "group" and (c.gensures or c.grequires)
    c_requires = c.grequires if gview else c.requires
    c_ensures = c.gensures if gview else c.ensures
    if run.c.opts.get("view") == "scalar" and c.sensures and c.mode != "ring":
        c_requires, c_ensures = c.srequires, c.sensures
        run.V.bridges_used.add(cname + " (scalar view)")
    if gview:
        run.V.bridges_used.add(cname)
    for i, (lab, ast, txt) in enumerate(c_requires):
        g = ev0.bool(ast)
        run.add_named(st, "pre", "pre.%s.%s" % (cname.split(".")[-1] if False else short(cname), lab or str(i + 1)), site, g, "precondition of %s: %s" % (cname, txt))
        st.assume(g)
    # havoc
    cells = []
    for a in (c.assigns or []):
        cells.extend(ev0.loc_cells(a))
    pre_mem = dict(st.mem)
    st.pending = {}
    st.call_mark = len(st.hyps)
    havocked = set()
    for (o, p, lt) in cells:
        info = run.objs[o]
        nm = "%s%s" % (info.name, prog.path_name(info.ty, p) if not info.lazy else "".join("[%s]" % x for x in p))
        nv = run.fresh_value(st, lt, nm)
        run.write_cell(st, o, p, nv, site)
        havocked.add((o, p))
        if run.mode == "ring" and prog.kind(lt) == "opaque":
            (mono, _), = nv.poly.t.items()
            st.pending[mono[0][0]] = (o, p)
    # result
    results = []
    rts = callee["results"]
    env_h = dict(env)
    for rn_, pol in errcase.items():
        idx = int(rn_[6:]) if rn_ != "result" else 0
        env_h[rn_] = wrapm(run, Iface(True) if pol else Iface(False, "error"), rts[idx])
    evh0 = Evaluator(run, st, pre_mem, env_h, phase="pre")
    evh0.pkg = c.pkg
    hints = result_hints(c, evh0, c_ensures)
    for i, rt in enumerate(rts):
        rname = "result" if len(rts) == 1 else "result%d" % i
        k = prog.kind(rt)
        h = hints.get(rname)
        if k == "ptr":
            hn = hints.get("isnil(" + rname + ")")
            if h is None and hn is not None and hn[1] == ("bool", True):
                results.append(NIL)
            elif h is not None and h[0] == "eq":
                evh = Evaluator(run, st, pre_mem, env_h, phase="pre")
                evh.pkg = c.pkg
                v = evh.ev(h[1], True)
                if isinstance(v, Ref):
                    results.append(v.ptr)
                elif v is None:
                    results.append(NIL)
                else:
                    raise VerifError("result hint of %s is not a pointer" % cname)
            elif h is not None and h[0] == "fresh":
                o = run.new_obj(prog.elem(rt), "res." + short(cname), "result", oid=run.site_oid(st, "res." + short(cname), str(ins.get("reg")) + ".%d" % i))
                run.init_obj_fresh(st, o, "res." + short(cname))
                results.append(Ptr(o))
                for (oo, pp, lt) in run.cells_under(o, ()):
                    havocked.add((oo, pp))
                    if run.mode == "ring" and prog.kind(lt) == "opaque":
                        (mono, _), = st.mem[(oo, pp)].poly.t.items()
                        st.pending[mono[0][0]] = (oo, pp)
            elif h is not None and h[0] == "cond":
                # result is either nil or a given pointer depending on a condition: fork is avoided by a tagged value
                raise Unsupported("conditional pointer result; use path-splitting ensures")
            else:
                raise VerifError("contract of %s does not determine its pointer result (ensures result == ... / fresh(result))" % cname)
        elif k == "slice" and h is not None and h[0] == "eq":
            evh = Evaluator(run, st, pre_mem, env, phase="pre")
            evh.pkg = c.pkg
            v = evh.ev(h[1], True)
            if not isinstance(v, SRef):
                raise VerifError("result hint of %s is not a slice" % cname)
            results.append(v.sl)
        elif k == "slice":
            n = hints.get("len(" + rname + ")")
            if n is None:
                raise VerifError("contract of %s does not give len(%s)" % (cname, rname))
            evh = Evaluator(run, st, pre_mem, env, phase="pre")
            evh.pkg = c.pkg
            ln = evh.conc(evh.ev(n[1], True))
            et = prog.elem(rt)
            o = run.new_obj(et, "res." + short(cname), "result", lazy=True, oid=run.site_oid(st, "res." + short(cname), str(ins.get("reg")) + ".%d" % i))
            for j in range(ln):
                for p, lt in prog.leaves(et):
                    st.mem[(o, (j,) + p)] = run.fresh_value(st, lt, "res.%s[%d]" % (short(cname), j))
            results.append(SliceV(o, (), run.mk_int(0, 64), run.mk_int(ln, 64), run.mk_int(ln, 64)))
        elif k == "interface" and rname in errcase:
            results.append(Iface(True) if errcase[rname] else Iface(False, "error"))
        elif k == "interface":
            results.append(("iface?", rname))
        else:
            results.append(run.fresh_value(st, rt, "res." + short(cname)))
    # interface results (errors): determined by ensures `isnil(resultK) <==> cond` -> fork-free: a boolean
    for i, r in enumerate(results):
        if isinstance(r, tuple) and r and r[0] == "iface?":
            h = hints.get("isnil(" + r[1] + ")")
            if h is None:
                raise VerifError("contract of %s does not determine nil-ness of %s" % (cname, r[1]))
            evh = Evaluator(run, st, pre_mem, env, phase="pre")
            evh.pkg = c.pkg
            cnd = evh.bool(h[1])
            if cnd is True:
                results[i] = Iface(True)
            elif cnd is False:
                results[i] = Iface(False, "error")
            else:
                raise Unsupported("symbolic error result; callers must be verified per path")
    env2 = dict(env)
    if len(results) == 1:
        env2["result"] = wrapm(run, results[0], rts[0])
    for i, r in enumerate(results):
        env2["result%d" % i] = wrapm(run, r, rts[i])
    ev1 = Evaluator(run, st, pre_mem, env2, phase="post", assigned=assigned_names(c), assume=True)
    ev1.havocked = havocked
    ev1.pkg = c.pkg
    for lab, ast, txt in c_ensures:
        st.assume(ev1.bool(ast))
    st.pending = {}
    for rn_ in errcase:
        st.decided.pop(("errcase", rn_, st.frame_tag, ins.get("reg"), st.block), None)
    if len(results) == 0:
        return None
    if len(results) == 1:
        return results[0]
    return tuple(results)


def wrapm(run, v, t):
    from .ceval import wrap_typed
    return wrap_typed(run.prog, v, t)


def short(cname):
    return cname.replace("(*", "").replace(")", "").replace("(", "")


def assigned_names(c):
    names = set()
    for a in (c.assigns or []):
        n = a
        while n[0] in ("deref", "field", "index", "slice"):
            n = n[1]
        if n[0] == "id":
            names.add(n[1])
    return names


def active_conjuncts(ast, ev):
    """conjuncts of an ensures clause that are active at this call: `C ==> body` is entered when C
    evaluates (over the entry state) to the constant true, skipped when constant false"""
    out = []
    for cj in flatten_and(ast):
        if cj[0] == "bin" and cj[1] == "==>":
            try:
                c = ev.bool(("old", cj[2]))
            except VerifError:
                c = None   # the condition mentions the results: it cannot select a result hint
            if c is not None and c is not True and c is not False:
                c = ev.st.truth(c)
            if c is True:
                out.extend(active_conjuncts(cj[3], ev))
            continue
        out.append(cj)
    return out


def result_hints(c, ev, ensures=None):
    """scan of ensures clauses of the form  result == e | fresh(result) | len(result) == n | isnil(result1) <==> e"""
    hints = {}
    for lab, ast, txt in (ensures if ensures is not None else c.ensures):
        for cj in active_conjuncts(ast, ev):
            if cj[0] == "bin" and cj[1] == "==":
                a, b = cj[2], cj[3]
                if a[0] == "id" and a[1].startswith("result"):
                    hints.setdefault(a[1], ("eq", b))
                if a[0] == "call" and a[1] == "len" and a[2][0][0] == "id" and a[2][0][1].startswith("result"):
                    hints.setdefault("len(" + a[2][0][1] + ")", ("eq", b))
            if cj[0] == "call" and cj[1] == "fresh" and cj[2][0][0] == "id":
                hints.setdefault(cj[2][0][1], ("fresh",))
            if cj[0] == "call" and cj[1] == "isnil" and cj[2][0][0] == "id":
                hints.setdefault("isnil(" + cj[2][0][1] + ")", ("eq", ("bool", True)))
            if cj[0] == "un" and cj[1] == "!" and cj[2][0] == "call" and cj[2][1] == "isnil":
                hints.setdefault("isnil(" + cj[2][2][0][1] + ")", ("eq", ("bool", False)))
            if cj[0] == "bin" and cj[1] == "<==>" and cj[2][0] == "call" and cj[2][1] == "isnil":
                hints.setdefault("isnil(" + cj[2][2][0][1] + ")", ("eq", cj[3]))
    return hints


def flatten_and(ast):
    if ast[0] == "bin" and ast[1] == "&&":
        return flatten_and(ast[2]) + flatten_and(ast[3])
    return [ast]
