"""Evaluation of contract expressions against symbolic states."""
from .terms import Poly, mk_and, mk_or, mk_not, mk_implies, mk_iff
from .domains import Unsupported
from .symex import Ptr, SliceV, Comp, Iface, NIL, VerifError


class Ref:
    """a location (pointer) together with the state it is to be read in"""
    __slots__ = ("ptr", "old")

    def __init__(self, ptr, old):
        self.ptr = ptr
        self.old = old


class SRef:
    __slots__ = ("sl", "old")

    def __init__(self, sl, old):
        self.sl = sl
        self.old = old


class Typed:
    """a composite (struct/array) value together with its Go type"""
    __slots__ = ("v", "t")

    def __init__(self, v, t):
        self.v, self.t = v, t


def wrap_typed(prog, v, t):
    """wrap a raw executor value of Go type t for use in contract expressions"""
    if v is None or t is None:
        return v
    ii = prog.int_info(t)
    if ii and not isinstance(v, MInt):
        return MInt(v, ii[0], ii[1])
    if isinstance(v, Comp):
        return Typed(v, t)
    return v


class MInt:
    """a machine integer value with its type (converted to a spec integer on demand)"""
    __slots__ = ("v", "w", "s")

    def __init__(self, v, w, s):
        self.v, self.w, self.s = v, w, s


def const_value(C, name):
    """integer value of a contract constant (constants are closed arithmetic expressions)"""
    def ev(a):
        k = a[0]
        if k == "num":
            return a[1]
        if k == "id":
            return ev(C.consts[a[1]])
        if k == "un" and a[1] == "-":
            return -ev(a[2])
        if k == "bin":
            x, y = ev(a[2]), ev(a[3])
            op = a[1]
            if op == "+":
                return x + y
            if op == "-":
                return x - y
            if op == "*":
                return x * y
            if op == "^":
                return x ** y
            if op == "/":
                return x // y
            if op == "%":
                return x % y
        raise VerifError("constant %s is not closed" % name)
    return ev(C.consts[name])


_IDENT_CACHE = {}


def _ast_idents(ast):
    r = _IDENT_CACHE.get(id(ast))
    if r is None:
        acc = set()

        def walk(a):
            if isinstance(a, tuple):
                if a and a[0] == "id":
                    acc.add(a[1])
                for x in a[1:]:
                    walk(x)
            elif isinstance(a, list):
                for x in a:
                    walk(x)
        walk(ast)
        r = _IDENT_CACHE[id(ast)] = tuple(sorted(acc))
    return r


class Evaluator:
    def __init__(self, run, st, old_mem, env, phase="post", assigned=None, assume=False):
        self.assume = assume
        self.ringmode = run.mode == "ring"
        self.groupmode = run.mode == "group"
        self.run = run
        self.st = st
        self.old_mem = old_mem
        self.env = env
        self.phase = phase
        self.assigned = assigned
        self.dom = run.dom
        self.prog = run.prog
        self.C = run.V.contracts
        self.bound = {}
        self.readlog = None
        self.havocked = set()
        self.pkg = run.f.get("pkg", "")

    # ---------------------------------------------------------- public
    def bool(self, ast):
        v = self.ev(ast, False)
        if isinstance(v, (bool, tuple)):
            return v
        raise VerifError("expression is not boolean: %r -> %r" % (ast, v))

    def int(self, ast):
        return self.as_int(self.ev(ast, False))

    def as_int(self, v):
        if self.ringmode:
            from .ring import RCanon, RInt
            if isinstance(v, RCanon):
                return self.cv(v.poly)
            if isinstance(v, RInt):
                raise VerifError("field value used as an integer (write `lv(e) % P` for the canonical representative)")
        if isinstance(v, MInt):
            return self.dom.to_spec(v.v, v.w, v.s)
        if isinstance(v, Ref):
            v = self.deref(v)
            return self.as_int(v)
        if isinstance(v, bool):
            raise VerifError("boolean used as integer")
        if isinstance(v, int):
            return self.dom.s_const(v)
        return v

    # ---------------------------------------------------------- memory
    def mem_for(self, old):
        return self.old_mem if old else self.st.mem

    def read(self, oid, path, lt, old):
        mem = self.mem_for(old)
        key = (oid, path)
        if self.readlog is not None and key in mem:
            self.readlog.append((key, mem[key]))
        if key not in mem:
            # lazily create (slice backing store): same cell in both states if it never existed
            v = self.run.read_cell(self.st, oid, path, lt)
            if key not in self.old_mem and oid in self.run.pre_objs:
                self.old_mem[key] = v
            if key not in mem:
                mem[key] = v
        return mem[key]

    def deref(self, ref):
        """value at a reference: leaf -> MInt / bool / Ref (for pointers); composite stays a Ref"""
        ptr = ref.ptr
        if ptr.obj is None:
            raise VerifError("nil reference in contract expression")
        if not all(isinstance(p, int) for p in ptr.path):
            raise Unsupported("symbolic path in contract reference")
        t = self.run.loc_type(ptr.obj, ptr.path)
        if t is None:
            return ref
        k = self.prog.kind(t)
        if k in ("struct", "array", "opaque"):
            return ref
        v = self.read(ptr.obj, ptr.path, t, ref.old)
        ii = self.prog.int_info(t)
        if ii:
            return MInt(v, ii[0], ii[1])
        if isinstance(v, Ptr):
            return Ref(v, ref.old)
        if isinstance(v, SliceV):
            return SRef(v, ref.old)
        return v

    def wrap(self, v, old, t=None):
        if isinstance(v, Ptr):
            return Ref(v, old)
        if isinstance(v, SliceV):
            return SRef(v, old)
        return v

    # ---------------------------------------------------------- evaluation
    def ev(self, ast, old):
        k = ast[0]
        if k == "num":
            return ast[1]
        if k == "bool":
            return ast[1]
        if k == "id":
            return self.ident(ast[1], old)
        if k == "old":
            return self.ev(ast[1], True)
        if k == "deref":
            v = self.ev(ast[1], old)
            if isinstance(v, Ref):
                return self.deref(v)
            return v
        if k == "field":
            return self.field(self.ev(ast[1], old), ast[2], old)
        if k == "index":
            base = self.ev(ast[1], old)
            idx = self.ev(ast[2], old)
            return self.index(base, idx, old)
        if k == "un":
            if ast[1] == "!":
                return mk_not(self.bool_of(self.ev(ast[2], old)))
            v = self.ev(ast[2], old)
            if isinstance(v, int) and not isinstance(v, bool):
                return -v
            if self.ringmode:
                from .ring import RInt
                if isinstance(v, RInt):
                    return RInt(-v.poly)
            return self.dom.s_neg(self.as_int(v))
        if k == "bin":
            return self.binary(ast, old)
        if k == "call":
            return self.call(ast[1], ast[2], old)
        if k == "gsum":
            from .group import GLin, lin_add
            _, var, lo, hi, body = ast
            lo = self.conc(self.ev(lo, old))
            hi = self.conc(self.ev(hi, old))
            acc = {}
            saved = self.bound.get(var)
            for i in range(lo, hi):
                self.bound[var] = i
                acc = lin_add(acc, self.glin(self.ev(body, old)))
            if saved is None:
                self.bound.pop(var, None)
            else:
                self.bound[var] = saved
            return GLin(acc)
        if k == "sum":
            _, var, lo, hi, body = ast
            lo = self.conc(self.ev(lo, old))
            hi = self.conc(self.ev(hi, old))
            # memo: the same sum over cells that still hold the very same values (typical for loop invariants
            # re-evaluated on every path) is not recomputed
            names = _ast_idents(ast)
            mkey = (id(ast), lo, hi, old, tuple(sorted((k_, v_) for k_, v_ in self.bound.items() if isinstance(v_, int))),
                    tuple((n_, id(self.env[n_])) for n_ in names if n_ in self.env),
                    tuple((n_, id(self.bound[n_])) for n_ in names if n_ in self.bound and not isinstance(self.bound[n_], int)))
            memo = self.run.sum_memo.get(mkey)
            if memo is not None:
                mem = self.mem_for(old)
                if all((mem.get(ck) is cv or mem.get(ck) == cv) for ck, cv in memo[0]):
                    return memo[1]
            outer_log = self.readlog
            self.readlog = []
            acc = self.dom.s_const(0)
            fast = isinstance(acc, Poly)
            terms = {}
            saved = self.bound.get(var)
            for i in range(lo, hi):
                self.bound[var] = i
                t_ = self.as_int(self.ev(body, old))
                if fast and isinstance(t_, Poly):
                    for m_, c_ in t_.t.items():
                        terms[m_] = terms.get(m_, 0) + c_
                else:
                    fast = False
                    acc = self.dom.s_bin(self.st, "+", acc, t_)
            if saved is None:
                self.bound.pop(var, None)
            else:
                self.bound[var] = saved
            if terms:
                acc = Poly(terms) if isinstance(acc, Poly) and not acc.t else self.dom.s_bin(self.st, "+", acc, Poly(terms))
            log = self.readlog
            self.readlog = outer_log
            if outer_log is not None:
                outer_log.extend(log)
            if len(log) < 2000:
                self.run.sum_memo[mkey] = (log, acc)
            return acc
        if k in ("forall", "exists"):
            _, var, lo, hi, body = ast
            lo = self.conc(self.ev(lo, old))
            hi = self.conc(self.ev(hi, old))
            parts = []
            saved = self.bound.get(var)
            for i in range(lo, hi):
                self.bound[var] = i
                parts.append(self.bool_of(self.ev(body, old)))
            if saved is None:
                self.bound.pop(var, None)
            else:
                self.bound[var] = saved
            return mk_and(*parts) if k == "forall" else mk_or(*parts)
        raise VerifError("cannot evaluate %r" % (ast,))

    def conc(self, v):
        if isinstance(v, int) and not isinstance(v, bool):
            return v
        c = self.dom.concrete(self.as_int(v))
        if c is None:
            raise Unsupported("quantifier / index bound must be concrete")
        return c

    def bool_of(self, v):
        if isinstance(v, (bool, tuple)):
            return v
        raise VerifError("not boolean: %r" % (v,))

    def ident(self, name, old):
        if name in self.bound:
            return self.bound[name]
        if name in self.env:
            v = self.env[name]
            o = old
            if self.phase == "post" and self.assigned is not None and name not in self.assigned and name not in ("result", "result0", "result1", "result2", "result3"):
                o = True
            if isinstance(v, Ptr):
                return Ref(v, o)
            if isinstance(v, SliceV):
                return SRef(v, o)
            if isinstance(v, MInt):
                return v
            return v
        if name in self.C.consts:
            return self.ev(self.C.consts[name], old)
        # local variable of the function under verification (loop invariants)
        if name in self.st.localname:
            o = self.st.localname[name]
            info = self.run.objs[o]
            k = self.prog.kind(info.ty)
            if k in ("struct", "array"):
                return Ref(Ptr(o), old)
            return self.deref(Ref(Ptr(o), old))
        g = self.run.V.find_global(self.run, name, self.pkg)
        if g is not None:
            p = self.run.V.global_ptr(self.run, self.st, g)
            return self.deref(Ref(p, old))
        raise VerifError("%s: unknown identifier %s in contract" % (self.run.fname, name))

    def field(self, base, name, old):
        if isinstance(base, Ref):
            t = self.run.loc_type(base.ptr.obj, base.ptr.path)
            k = self.prog.kind(t)
            if k == "ptr":
                base = self.deref(base)
                t = self.run.loc_type(base.ptr.obj, base.ptr.path)
            if name.isdigit() and self.prog.kind(t) == "array":
                return self.deref(Ref(Ptr(base.ptr.obj, base.ptr.path + (int(name),)), base.old))
            fi = self.prog.field_index(t, name)
            if fi is None:
                raise VerifError("no field %s in %s" % (name, t))
            return self.deref(Ref(Ptr(base.ptr.obj, base.ptr.path + (fi,)), base.old))
        if isinstance(base, Typed):
            t = base.t
            if name.isdigit() and self.prog.kind(t) == "array":
                return wrap_typed(self.prog, base.v.elems[int(name)], self.prog.elem(t))
            fi = self.prog.field_index(t, name)
            if fi is None:
                raise VerifError("no field %s in %s" % (name, t))
            return wrap_typed(self.prog, base.v.elems[fi], self.prog.fields(t)[fi]["type"])
        if isinstance(base, Comp):
            raise Unsupported("field of untyped composite value in contract")
        raise VerifError("field %s of non-reference %r" % (name, base))

    def index(self, base, idx, old):
        i = self.conc(idx)
        if isinstance(base, Ref):
            t = self.run.loc_type(base.ptr.obj, base.ptr.path)
            if t is not None and self.prog.kind(t) == "ptr":
                base = self.deref(base)
            return self.deref(Ref(Ptr(base.ptr.obj, base.ptr.path + (i,)), base.old))
        if isinstance(base, SRef):
            sl = base.sl
            off = self.dom.concrete(sl.off)
            if off is None:
                raise Unsupported("slice with symbolic offset in contract")
            return self.deref(Ref(Ptr(sl.obj, sl.path + (off + i,)), base.old))
        if isinstance(base, Typed):
            return wrap_typed(self.prog, base.v.elems[i], self.prog.elem(base.t))
        raise VerifError("index of %r" % (base,))

    def binary(self, ast, old):
        _, op, a, b = ast
        if op in ("&&", "||", "==>", "<==>"):
            saved = self.assume
            if op != "&&":
                self.assume = False
            try:
                x = self.bool_of(self.ev(a, old))
            finally:
                self.assume = saved
            if op == "&&" and x is not True and x is not False:
                from .terms import conjuncts as _cj2
                if any(self.st.truth(c) is False for c in _cj2(x)):
                    x = False
            if op == "&&" and x is False:
                return False
            if op == "||" and x is True:
                return True
            if op == "==>" and x is False:
                return True
            if op == "==>" and x is not True:
                from .terms import conjuncts as _cj
                tr = self.st.truth(x)
                if tr is None and any(self.st.truth(c) is False for c in _cj(x)):
                    tr = False
                if tr is False:
                    return True
                if tr is True and saved:
                    x = True
            if not (op == "&&" or (op == "==>" and x is True)):
                self.assume = False
            try:
                y = self.bool_of(self.ev(b, old))
            finally:
                self.assume = saved
            return {"&&": mk_and, "||": mk_or, "==>": mk_implies, "<==>": mk_iff}[op](x, y)
        x = self.ev(a, old)
        y = self.ev(b, old)
        if self.ringmode:
            from .ring import RInt, RCanon
            if isinstance(x, (RInt, RCanon)) or isinstance(y, (RInt, RCanon)):
                return self.ring_binary(op, x, y)
        if self.groupmode:
            from .group import GLin
            if isinstance(x, GLin) or isinstance(y, GLin):
                return self.group_equal(op, x, y)
        if op in ("==", "!="):
            r = self.equal(x, y)
            return r if op == "==" else mk_not(r)
        if op in ("<", "<=", ">", ">="):
            if isinstance(x, int) and isinstance(y, int):
                return {"<": x < y, "<=": x <= y, ">": x > y, ">=": x >= y}[op]
            return self.dom.s_cmp(op, self.as_int(x), self.as_int(y))
        # arithmetic
        if isinstance(x, int) and isinstance(y, int) and not isinstance(x, bool):
            if op == "+":
                return x + y
            if op == "-":
                return x - y
            if op == "*":
                return x * y
            if op == "^":
                return x ** y
            if op == "/":
                return x // y
            if op == "%":
                return x % y
            if op == "<<":
                return x << y
            if op == ">>":
                return x >> y
            if op == "&":
                return x & y
            if op == "|":
                return x | y
        return self.dom.s_bin(self.st, op, self.as_int(x), self.as_int(y))

    def equal(self, x, y):
        if isinstance(x, Ref) and isinstance(y, Ref):
            tx = self.run.loc_type(x.ptr.obj, x.ptr.path) if x.ptr.obj else None
            return x.ptr == y.ptr
        if isinstance(x, Ref) and y is None or isinstance(y, Ref) and x is None:
            r = x if isinstance(x, Ref) else y
            return r.ptr.obj is None
        if x is None and y is None:
            return True
        if isinstance(x, Iface) or isinstance(y, Iface):
            xn = x is None or (isinstance(x, Iface) and x.nil)
            yn = y is None or (isinstance(y, Iface) and y.nil)
            return xn == yn
        if isinstance(x, SRef) and y is None:
            return x.sl.obj is None
        if isinstance(x, SRef) and isinstance(y, SRef):
            c = self.dom.concrete
            return (x.sl.obj == y.sl.obj and x.sl.path == y.sl.path and c(x.sl.off) == c(y.sl.off)
                    and c(x.sl.len) is not None and c(x.sl.len) == c(y.sl.len))
        if isinstance(x, (bool, tuple)) and isinstance(y, (bool, tuple)) and not self.is_intterm(x) and not self.is_intterm(y):
            return mk_iff(x, y)
        if isinstance(x, int) and isinstance(y, int):
            return x == y
        return self.dom.s_cmp("==", self.as_int(x), self.as_int(y))

    def is_intterm(self, x):
        return isinstance(x, tuple) and x and x[0] in ("bvconst", "bvvar", "bvadd", "bvsub", "bvmul", "bvand", "bvor", "bvxor", "bvshl", "bvlshr", "bvashr", "bvnot", "bvneg", "extract", "zext", "sext", "concat", "ite", "bvurem", "bvudiv")

    # ---------------------------------------------------------- builtin spec functions
    def call(self, name, args, old):
        if self.ringmode and name in RING_BUILTINS:
            return self.ring_call(name, args, old)
        if self.groupmode and name in GROUP_BUILTINS:
            return self.group_call(name, args, old)
        if name in self.C.defines:
            params, body = self.C.defines[name]
            if len(params) != len(args):
                raise VerifError("arity of %s" % name)
            vals = [self.ev(a, old) for a in args]
            saved = {p: self.bound.get(p) for p in params}
            for p, v in zip(params, vals):
                self.bound[p] = v
            try:
                return self.ev(body, old)
            finally:
                for p, v in saved.items():
                    if v is None:
                        self.bound.pop(p, None)
                    else:
                        self.bound[p] = v
        if name == "cong":
            if self.ringmode:
                from .ring import RInt, RCanon, req
                xa, xb = self.ev(args[0], old), self.ev(args[1], old)
                if isinstance(xa, RInt) or isinstance(xb, RInt):
                    return self.ring_cong(xa, xb)
                a, b, m = self.as_int(xa), self.as_int(xb), self.as_int(self.ev(args[2], old))
                return self.dom.s_cong(self.st, a, b, m)
            a, b, m = [self.as_int(self.ev(x, old)) for x in args]
            return self.dom.s_cong(self.st, a, b, m)
        if name in ("min", "max"):
            a, b = self.ev(args[0], old), self.ev(args[1], old)
            ca, cb = self.conc(a), self.conc(b)
            return min(ca, cb) if name == "min" else max(ca, cb)
        if name == "congw":
            # congruence with a ghost quotient: as a proof goal  a - b == m*k  for the given witness k (which may
            # name locals of the body); for callers it is the plain congruence
            a, b, m = [self.as_int(self.ev(x, old)) for x in args[:3]]
            if self.assume or self.phase == "pre":
                return self.dom.s_cong(self.st, a, b, m)
            k = self.as_int(self.ev(args[3], old))
            return self.dom.s_cmp("==", self.dom.s_bin(self.st, "-", a, b), self.dom.s_bin(self.st, "*", m, k))
        if name == "ite":
            c = self.bool_of(self.ev(args[0], old))
            a = self.ev(args[1], old)
            b = self.ev(args[2], old)
            if isinstance(a, (bool,)) or (isinstance(a, tuple) and not self.is_intterm(a) and not isinstance(a, Poly)):
                return mk_or(mk_and(c, a), mk_and(mk_not(c), b))
            return self.dom.s_ite(self.st, c, self.as_int(a), self.as_int(b))
        if name == "len":
            v = self.ev(args[0], old)
            if isinstance(v, SRef):
                return MInt(v.sl.len, 64, True)
            if isinstance(v, Ref):
                t = self.run.loc_type(v.ptr.obj, v.ptr.path)
                return self.prog.array_len(t)
            raise VerifError("len of %r" % (v,))
        if name == "le":
            # little-endian value of the first n bytes / words of an array or slice
            base = self.ev(args[0], old)
            n = self.conc(self.ev(args[1], old))
            width = self.conc(self.ev(args[2], old)) if len(args) > 2 else 8
            acc = self.dom.s_const(0)
            for i in range(n):
                e = self.as_int(self.index(base, i, old))
                acc = self.dom.s_bin(self.st, "+", acc, self.dom.s_bin(self.st, "*", e, self.dom.s_const(1 << (width * i))))
            return acc
        if name == "sliceof":
            base = self.ev(args[0], old)
            lo = self.conc(self.ev(args[1], old))
            hi = self.conc(self.ev(args[2], old))
            if isinstance(base, Ref):
                t = self.run.loc_type(base.ptr.obj, base.ptr.path)
                n = self.prog.array_len(t)
                mk = self.run.mk_int
                return SRef(SliceV(base.ptr.obj, base.ptr.path, mk(lo, 64), mk(hi - lo, 64), mk(n - lo, 64)), base.old)
            raise VerifError("sliceof %r" % (base,))
        if name == "fresh":
            v = self.ev(args[0], old)
            o = v.ptr.obj if isinstance(v, Ref) else (v.sl.obj if isinstance(v, SRef) else None)
            if o is None:
                return False
            return o not in self.run.pre_objs and self.run.objs[o].origin in ("local", "alloc", "result")
        if name == "isnil":
            v = self.ev(args[0], old)
            if isinstance(v, Ref):
                return v.ptr.obj is None
            if isinstance(v, SRef):
                return v.sl.obj is None
            if isinstance(v, Iface):
                return v.nil
            if v is None:
                return True
            raise VerifError("isnil of %r" % (v,))
        if name == "unchanged":
            # every leaf under the location has its entry value
            parts = []
            for a in args:
                for (o, p, lt) in self.loc_cells(a):
                    cur = self.read(o, p, lt, False)
                    oldv = self.read(o, p, lt, True)
                    if cur is oldv or cur == oldv:
                        continue
                    ii = self.prog.int_info(lt)
                    if ii:
                        parts.append(self.run.int_cmp("==", cur, oldv, ii[1]))
                    elif self.groupmode and self.prog.kind(lt) == "opaque":
                        if self.assume and (o, p) in self.havocked:
                            self.st.mem[(o, p)] = oldv
                        else:
                            parts.append(cur == oldv)
                    elif self.ringmode and self.prog.kind(lt) == "opaque":
                        if self.assume and (o, p) in self.havocked:
                            self.st.mem[(o, p)] = oldv
                            self.st.pending = {a: k for a, k in self.st.pending.items() if k != (o, p)}
                        else:
                            parts.append(self.run.limbs_equal(self.st, cur, oldv))
                    else:
                        parts.append(False)
            return mk_and(*parts)
        if name == "bit":
            x = self.as_int(self.ev(args[0], old))
            k = self.conc(self.ev(args[1], old))
            return self.dom.s_bin(self.st, "%", self.dom.s_bin(self.st, ">>", x, self.dom.s_const(k)), self.dom.s_const(2))
        if name == "bool2int":
            c = self.bool_of(self.ev(args[0], old))
            return self.dom.s_ite(self.st, c, self.dom.s_const(1), self.dom.s_const(0))
        raise VerifError("unknown spec function %s" % name)

    # ---------------------------------------------------------- locations (assigns / modifies)
    def loc_cells(self, ast):
        """leaf cells (obj, path, leaftype) designated by a location expression"""
        k = ast[0]
        if k == "deref":
            v = self.ev(ast[1], False)
            if isinstance(v, Ref):
                if v.ptr.obj is None:
                    return []
                return self.run.cells_under(v.ptr.obj, v.ptr.path)
            if isinstance(v, SRef):
                return self.slice_cells(v.sl)
            raise VerifError("bad location %r" % (ast,))
        if k == "slice":
            base = self.ev(ast[1], False)
            lo = self.conc(self.ev(ast[2], False))
            hi = self.conc(self.ev(ast[3], False))
            out = []
            for i in range(lo, hi):
                r = self.index_ref(base, i)
                out.extend(self.run.cells_under(r.obj, r.path))
            return out
        v = self.ev_loc(ast)
        if isinstance(v, Ptr):
            return self.run.cells_under(v.obj, v.path)
        raise VerifError("bad location %r" % (ast,))

    def ev_loc(self, ast):
        k = ast[0]
        if k == "field":
            base = self.ev_loc(ast[1])
            t = self.run.loc_type(base.obj, base.path)
            if self.prog.kind(t) == "ptr":
                base = self.run.load(self.st, base)
                t = self.run.loc_type(base.obj, base.path)
            fi = self.prog.field_index(t, ast[2])
            return Ptr(base.obj, base.path + (fi,))
        if k == "index":
            base = self.ev(ast[1], False)
            return self.index_ref(base, self.conc(self.ev(ast[2], False)))
        if k == "id":
            v = self.ev(ast, False)
            if isinstance(v, Ref):
                return v.ptr
            raise VerifError("location %s is not a reference" % ast[1])
        raise VerifError("bad location %r" % (ast,))

    def index_ref(self, base, i):
        if isinstance(base, Ref):
            return Ptr(base.ptr.obj, base.ptr.path + (i,))
        if isinstance(base, SRef):
            off = self.dom.concrete(base.sl.off)
            return Ptr(base.sl.obj, base.sl.path + (off + i,))
        raise VerifError("index_ref of %r" % (base,))

    def slice_cells(self, sl):
        n = self.dom.concrete(sl.len)
        off = self.dom.concrete(sl.off)
        if n is None or off is None:
            raise Unsupported("assigns over slice of symbolic length")
        out = []
        for i in range(n):
            out.extend(self.run.cells_under(sl.obj, sl.path + (off + i,)))
        return out


# ================================================================== ring mode (tier F)

RING_BUILTINS = {"lv", "sval", "inv", "tight", "canon", "small", "eqlimbs", "iszero", "isone", "rawzero", "fpow", "finv"}


def _ring_methods():
    from .ring import RVal, RPoly, RInt, RCanon, req, P25519, MOD, to_rpoly

    def rv(self, ref):
        if not isinstance(ref, Ref):
            raise VerifError("field element reference expected, got %r" % (ref,))
        t = self.run.loc_type(ref.ptr.obj, ref.ptr.path)
        if self.prog.kind(t) == "ptr":
            ref = self.deref(ref)
            t = self.run.loc_type(ref.ptr.obj, ref.ptr.path)
        if self.prog.kind(t) != "opaque":
            raise VerifError("not a field element: %s" % t)
        v = self.read(ref.ptr.obj, ref.ptr.path, t, ref.old)
        return v, ref

    def setcell(self, ref, val):
        if ref.old:
            raise VerifError("cannot constrain an old() element by assignment")
        self.st.mem[(ref.ptr.obj, ref.ptr.path)] = val

    def cv(self, poly):
        """canonical integer representative in [0,P) of a ring value, as an LIA atom"""
        st = self.st
        key = ("cv", poly)
        if key in st.cache:
            return st.cache[key]
        if poly.is_const():
            r = Poly.const(poly.const_val() % MOD())
            st.cache[key] = r
            return r
        n = self.dom.new_name("cv")
        st.decl[n] = "Int"
        st.bounds[n] = (0, MOD() - 1)
        a = Poly.atom(n)
        st.hyps.append(("<=", Poly.const(0), a))
        st.hyps.append(("<=", a, Poly.const(MOD() - 1)))
        st.hyps.append(mk_iff(req(poly), ("=", a, Poly.const(0))))
        for k2, other in list(st.cache.items()):
            if isinstance(k2, tuple) and k2 and k2[0] == "cv":
                e = req(poly - k2[1])
                eqf = ("=", a, other)
                st.hyps.append(mk_iff(e, eqf))
                if not (poly + k2[1]).t and isinstance(other, Poly):
                    # canonical representatives of x and -x:  both 0, or they add up to P
                    st.hyps.append(mk_or(mk_and(("=", a, Poly.const(0)), ("=", other, Poly.const(0))), ("=", a + other, Poly.const(MOD()))))
                elif isinstance(other, Poly) and "cvneg" in self.run.c.opts:
                    # the same fact for values that are only provably opposite
                    st.hyps.append(mk_implies(req(poly + k2[1]), mk_or(mk_and(("=", a, Poly.const(0)), ("=", other, Poly.const(0))), ("=", a + other, Poly.const(MOD())))))
        st.cache[key] = a
        return a

    def ring_of(self, v):
        if isinstance(v, RInt):
            return v.poly
        if isinstance(v, int) and not isinstance(v, bool):
            return RPoly.const(v)
        if isinstance(v, Poly) and v.is_const():
            return RPoly.const(v.const_val())
        return None

    def ring_cong(self, xa, xb):
        pa, pb = self.ring_of(xa), self.ring_of(xb)
        if pa is not None and pb is not None:
            return req(pa - pb)
        # one side is a plain integer expression n: n == canonical(value) (mod P)
        ring, other = (pa, xb) if pa is not None else (pb, xa)
        n = self.as_int(other)
        return self.dom.s_cong(self.st, n, self.cv(ring), Poly.const(MOD()))

    def ring_binary(self, op, x, y):
        if op in ("+", "-", "*") and (isinstance(x, RCanon) or isinstance(y, RCanon)):
            # canonical representatives are ordinary integers
            return self.dom.s_bin(self.st, op, self.as_int(x), self.as_int(y))
        if op in ("+", "-", "*"):
            pa, pb = self.ring_of(x), self.ring_of(y)
            if pa is None or pb is None:
                raise VerifError("field value mixed with a non-constant integer in %s" % op)
            return RInt(pa + pb if op == "+" else pa - pb if op == "-" else pa * pb)
        if op == "^":
            if not isinstance(y, int):
                raise VerifError("exponent must be a constant")
            return RInt(self.ring_of(x).pow(y))
        if op == "%":
            if isinstance(x, RInt) and isinstance(y, int) and y == MOD():
                return RCanon(x.poly)
            if isinstance(x, RCanon):
                return self.dom.s_bin(self.st, "%", self.cv(x.poly), self.as_int(y))
            raise VerifError("unsupported %% on a field value")
        if op in ("==", "!="):
            if isinstance(x, RCanon) and isinstance(y, RCanon):
                r = req(x.poly - y.poly)
            elif isinstance(x, RInt) and isinstance(y, RInt):
                r = req(x.poly - y.poly)
            elif isinstance(x, RInt) or isinstance(y, RInt):
                ri, other = (x, y) if isinstance(x, RInt) else (y, x)
                po = self.ring_of(other)
                if po is not None:
                    r = req(ri.poly - po)
                else:
                    # lv(e) == n for an integer expression n: the element holds the image of n
                    r = self.ring_cong(ri, other)
            else:
                a, b = self.as_int(x), self.as_int(y)
                r = self.dom.s_cmp("==", a, b)
            return r if op == "==" else mk_not(r)
        if op in ("<", "<=", ">", ">="):
            return self.dom.s_cmp(op, self.as_int(x), self.as_int(y))
        if op in ("/", ">>", "&"):
            return self.dom.s_bin(self.st, op, self.as_int(x), self.as_int(y))
        raise VerifError("operator %s on field values" % op)

    def fn_atom(self, kind, poly):
        """opaque function of a ring value: inverse (x^(p-2)) or x^((p-5)/8), with its defining axioms"""
        st = self.st
        key = ("fn", kind, poly)
        if key in st.cache:
            return st.cache[key]
        a = self.dom.new_name(kind).replace("!", "_")
        st.elem_atoms[a] = None
        w = RPoly.atom(a)
        if kind == "finv":
            # M2 (Fermat): x != 0 => x * x^(p-2) = 1 ;  0^(p-2) = 0
            st.hyps.append(mk_or(req(poly * w - 1), req(poly)))
            st.hyps.append(mk_implies(req(poly), req(w)))
            st.hyps.append(mk_implies(req(w), req(poly)))
            self.run.V.math_used.add("M2 (Fermat: x^(p-2) is the inverse, 0 -> 0)")
        elif kind == "p58":
            # M6: for p = 5 mod 8, c = x^((p-1)/4) = w^2 * x  is 0 (iff x = 0) or a fourth root of unity
            i_val = self.sqrt_m1()
            c = w * w * poly
            st.hyps.append(mk_or(mk_and(req(poly), req(w)), req(c - 1), req(c + 1), req(c - i_val), req(c + i_val)))
            st.hyps.append(mk_implies(req(poly), req(w)))
            self.run.V.math_used.add("M6 (x^((p-1)/4) is 0 or a fourth root of unity for p = 5 mod 8)")
        st.cache[key] = w
        return w

    def sqrt_m1(self):
        g = self.run.V.find_global(self.run, "sqrtM1", "filippo.io/edwards25519/field")
        if g is None:
            raise VerifError("sqrtM1 is not visible here")
        p = self.run.V.global_ptr(self.run, self.st, g)
        v, _ = self.rv(self.deref(Ref(p, False)))
        return v.poly

    def ring_call(self, name, args, old):
        if name in ("lv", "sval"):
            v, _ = self.rv(self.ev(args[0], old))
            return RInt(v.poly)
        if name in ("inv", "tight", "canon", "small"):
            v, ref = self.rv(self.ev(args[0], old))
            lvl = {"inv": 1, "tight": 2, "canon": 3, "small": 2}[name]
            if name == "small" and not self.assume:
                raise Unsupported("small() cannot be established in ring mode")
            if self.assume:
                if lvl <= 2 and v.inv < lvl and not ref.old:
                    self.setcell(ref, RVal(v.poly, lvl, v.raw))
                elif lvl <= 2 and v.inv < lvl and ref.old:
                    # entry-state flag (requires at function entry): both memories hold the same RVal object
                    nv = RVal(v.poly, lvl, v.raw)
                    self.old_mem[(ref.ptr.obj, ref.ptr.path)] = nv
                    if self.st.mem.get((ref.ptr.obj, ref.ptr.path)) is v:
                        self.st.mem[(ref.ptr.obj, ref.ptr.path)] = nv
                return True
            if lvl == 3:
                raise Unsupported("canon() cannot be established in ring mode")
            return v.inv >= lvl
        if name == "eqlimbs":
            x, xr = self.rv(self.ev(args[0], old))
            y, yr = self.rv(self.ev(args[1], old))
            if self.assume and not xr.old and (xr.ptr.obj, xr.ptr.path) in self.havocked:
                self.setcell(xr, y)
                self.st.pending = {a: k for a, k in self.st.pending.items() if k != (xr.ptr.obj, xr.ptr.path)}
                return True
            return self.run.limbs_equal(self.st, x, y)
        if name in ("iszero", "isone"):
            v, ref = self.rv(self.ev(args[0], old))
            const = RVal(RPoly.const(0 if name == "iszero" else 1), 2, "ZERO" if name == "iszero" else "ONE")
            if self.assume and not ref.old and (ref.ptr.obj, ref.ptr.path) in self.havocked:
                self.setcell(ref, const)
                self.st.pending = {a: k for a, k in self.st.pending.items() if k != (ref.ptr.obj, ref.ptr.path)}
                return True
            if self.assume:
                # a fact about an existing element (global invariant): value and limbs
                self.st.hyps.append(req(v.poly - const.poly))
                nv = RVal(const.poly, 2, const.raw)
                for mem in (self.st.mem, self.old_mem):
                    if mem.get((ref.ptr.obj, ref.ptr.path)) is v:
                        mem[(ref.ptr.obj, ref.ptr.path)] = nv
                return True
            return self.run.limbs_equal(self.st, v, const)
        if name == "rawzero":
            v, ref = self.rv(self.ev(args[0], old))
            return self.run.limbs_equal(self.st, v, RVal(RPoly.const(0), 2, "ZERO"))
        if name in ("fpow", "finv"):
            x = self.ev(args[0], old)
            px = self.ring_of(x)
            if px is None:
                raise VerifError("fpow of a non-field value")
            e = MOD() - 2 if name == "finv" else self.conc(self.ev(args[1], old))
            single = len(px.t) == 1 and list(px.t.items())[0][1] == 1 and len(list(px.t)[0]) == 1 and list(px.t)[0][0][1] == 1
            kind0 = "finv" if e == MOD() - 2 else "p58" if (e == (P25519 - 5) // 8 and MOD() == P25519) else None
            if not self.assume and kind0 and ("fn", kind0, px) in self.st.cache:
                return RInt(self.st.cache[("fn", kind0, px)])
            if not self.assume:
                # proving a body against its exponent contract: the argument is an input atom
                if single or px.is_const():
                    return RInt(px.pow(e)) if single else RInt(RPoly.const(pow(px.const_val(), e, MOD())))
                raise Unsupported("fpow of a compound value as a proof goal")
            if px.is_const():
                return RInt(RPoly.const(pow(px.const_val(), e, MOD())))
            mono1 = len(px.t) == 1 and list(px.t.values())[0] == 1
            if kind0 is None and mono1:
                return RInt(px.pow(e))   # a power of a monomial is exact algebra
            if e == MOD() - 2:
                return RInt(self.fn_atom("finv", px))
            if kind0 == "p58":
                return RInt(self.fn_atom("p58", px))
            raise Unsupported("fpow with exponent %d of a compound value" % e)
        raise VerifError("ring builtin %s" % name)

    for f in (rv, setcell, cv, ring_of, ring_cong, ring_binary, fn_atom, sqrt_m1, ring_call):
        setattr(Evaluator, f.__name__, f)


_ring_methods()


# ================================================================== group mode (tier G)

GROUP_BUILTINS = {"pt", "smul", "gadd", "gneg", "gid", "gbase", "gsel", "gvalid", "init", "wf", "elems", "validc",
                  "samepoint", "validP1", "validP2", "validC", "validA"}


def _group_methods():
    from .group import GVal, GLin, lin_add, lin_scale, lin_eq

    def gv(self, ref):
        if not isinstance(ref, Ref):
            raise VerifError("point reference expected, got %r" % (ref,))
        t = self.run.loc_type(ref.ptr.obj, ref.ptr.path)
        if self.prog.kind(t) == "ptr":
            ref = self.deref(ref)
            t = self.run.loc_type(ref.ptr.obj, ref.ptr.path)
        if self.prog.kind(t) != "opaque":
            raise VerifError("not a point-typed location: %s" % t)
        v = self.read(ref.ptr.obj, ref.ptr.path, t, ref.old)
        if not isinstance(v, GVal):
            raise VerifError("not a group value: %r" % (v,))
        return v, ref

    def gsetcell(self, ref, val):
        for mem in ((self.st.mem,) if not ref.old else (self.old_mem,)):
            mem[(ref.ptr.obj, ref.ptr.path)] = val

    def glin(self, x):
        if isinstance(x, GLin):
            return x.lin
        raise VerifError("group value expected, got %r" % (x,))

    def group_call(self, name, args, old):
        dom = self.dom
        if name == "pt":
            v, ref = self.gv(self.ev(args[0], old))
            g = GLin(v.lin)
            g.ref = ref
            g.val = v
            return g
        if name == "gid":
            return GLin({})
        if name == "gbase":
            return GLin({"B": Poly.const(1)})
        if name == "gadd":
            return GLin(lin_add(self.glin(self.ev(args[0], old)), self.glin(self.ev(args[1], old))))
        if name == "gneg":
            return GLin(lin_scale(self.glin(self.ev(args[0], old)), Poly.const(-1)))
        if name == "smul":
            k = self.as_int(self.ev(args[0], old))
            return GLin(lin_scale(self.glin(self.ev(args[1], old)), k))
        if name == "gsel":
            c = self.bool_of(self.ev(args[0], old))
            a = self.glin(self.ev(args[1], old))
            b = self.glin(self.ev(args[2], old))
            if c is True:
                return GLin(a)
            if c is False:
                return GLin(b)
            out = {}
            for at in sorted(set(a) | set(b)):
                out[at] = dom.ite(self.st, c, a.get(at, Poly.const(0)), b.get(at, Poly.const(0)), 64, True) if a.get(at) != b.get(at) else a[at]
            return GLin(out)
        if name in ("gvalid", "validc", "validP1", "validP2", "validC", "validA"):
            v, ref = self.gv(self.ev(args[0], old))
            if self.assume:
                if (ref.ptr.obj, ref.ptr.path) in self.havocked or name == "gvalid":
                    nv = GVal(v.lin, True, True, v.raw)
                    self.gsetcell(ref, nv)
                    if ref.old and self.st.mem.get((ref.ptr.obj, ref.ptr.path)) is v:
                        self.st.mem[(ref.ptr.obj, ref.ptr.path)] = nv
                    return True
                return v.init if v.wf else False
            return v.init if v.wf else False
        if name == "init":
            v, ref = self.gv(self.ev(args[0], old))
            return v.init
        if name == "elems":
            return True
        if name == "wf":
            v, ref = self.gv(self.ev(args[0], old))
            if self.assume and not v.wf:
                nv = GVal(v.lin, True, v.init, v.raw)
                self.gsetcell(ref, nv)
                if ref.old and self.st.mem.get((ref.ptr.obj, ref.ptr.path)) is v:
                    self.st.mem[(ref.ptr.obj, ref.ptr.path)] = nv
                return True
            return v.wf
        if name == "samepoint":
            x, xr = self.gv(self.ev(args[0], old))
            y, yr = self.gv(self.ev(args[1], old))
            if self.assume and not xr.old and (xr.ptr.obj, xr.ptr.path) in self.havocked:
                self.gsetcell(xr, y)
                return True
            if x.raw == y.raw:
                return True
            if self.assume:
                raise VerifError("samepoint can only be assumed by assignment")
            return mk_and(lin_eq(dom, x.lin, y.lin), x.wf == y.wf, mk_iff(x.init, y.init))
        raise VerifError("group builtin %s" % name)

    def group_equal(self, op, x, y):
        if op not in ("==", "!="):
            raise VerifError("operator %s on group values" % op)
        if self.assume and op == "==":
            for a, b in ((x, y), (y, x)):
                ref = getattr(a, "ref", None)
                pristine = ref is not None and self.phase == "pre" and len(a.val.lin) == 1 and not any(
                    at in self.glin(b) for at in a.val.lin)
                if ref is not None and (pristine or (not ref.old and (ref.ptr.obj, ref.ptr.path) in self.havocked)) and not getattr(b, "ref", None) is ref:
                    old = a.val
                    nv = GVal(self.glin(b), old.wf, old.init, old.raw)
                    if pristine:
                        # entry-state fact about an input nobody has read yet: the input simply is that value
                        for mem in (self.st.mem, self.old_mem):
                            if mem.get((ref.ptr.obj, ref.ptr.path)) is old:
                                mem[(ref.ptr.obj, ref.ptr.path)] = nv
                    else:
                        self.gsetcell(ref, nv)
                    return True
        r = lin_eq(self.dom, self.glin(x), self.glin(y))
        if r is True:
            return True if op == "==" else False
        if self.assume:
            # equal coefficients are sufficient, not necessary, for equality in the group: such a formula must
            # never become a hypothesis (it would be stronger than the fact it stands for)
            raise VerifError("a group equality can only be assumed by assignment to a freshly written location")
        if op == "!=":
            raise VerifError("group disequality is not expressible by coefficients")
        return r

    for f in (gv, gsetcell, glin, group_call, group_equal):
        setattr(Evaluator, f.__name__, f)


_group_methods()
