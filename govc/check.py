"""Property-level driver:  python3-vt -m govc.check --property C09 [--tier quick|thorough]

Regenerates every obligation of the functions a property depends on from /repo's current
working tree, discharges them with the solver portfolio, writes /verif/evidence/<id>.json,
and prints `VIOLATION property=<id> replay=<path>` (exit 1) for every obligation that is
not discharged and is not listed in known_findings.json.
"""
import argparse
import fnmatch
import json
import os
import re
import sys
import time

from . import smt
from .verifier import Verifier
from . import ssa as S

ROOT = os.path.dirname(os.path.dirname(os.path.abspath(__file__)))


def load_json(p, default=None):
    try:
        return json.load(open(p))
    except FileNotFoundError:
        return default


def is_internal_helper(name):
    """display name of an unexported function or method (exported API functions must keep existing)"""
    last = name.split(".")[-1].split("$")[0]
    return bool(last) and (last[0].islower() or last[0] == "_")


def sanitize(s):
    return re.sub(r"[^A-Za-z0-9_.=@#-]+", "_", s)[:150]


def main(argv=None):
    ap = argparse.ArgumentParser()
    ap.add_argument("--property", required=True)
    ap.add_argument("--tier", default=os.environ.get("VERIF_TIER", "quick"))
    ap.add_argument("--repo", default="/repo")
    ap.add_argument("--jobs", type=int, default=0)
    ap.add_argument("--no-replay", action="store_true")
    a = ap.parse_args(argv)
    pid = a.property
    tier = a.tier if a.tier in ("quick", "thorough") else "quick"
    seed = int(os.environ.get("VERIF_SEED", "0") or 0)
    t0 = time.time()
    propmap = load_json(os.path.join(ROOT, "spec", "propmap.json"))
    if pid not in propmap:
        print("property %s is not claimed by this machinery (see MANIFEST.json not_applicable)" % pid)
        return 2
    pm = propmap[pid]
    known = load_json(os.path.join(ROOT, "known_findings.json"), {"open": [], "fixed": []})
    timeout = 20 if tier == "quick" else 120
    need = 1 if tier == "quick" else 2
    jobs = a.jobs or (5 if tier == "quick" else 4)
    smt.USE_CACHE = (tier == "quick") and os.environ.get("GOVC_NOCACHE") is None
    configs = pm.get("configs", ["verif"]) if tier == "quick" else pm.get("configs_thorough", pm.get("configs", ["verif"]))
    all_obs = []
    problems = []      # (kind, name, text, ob or None)
    notes_missing = []
    fn_records = []
    libs = set()
    two_solvers = [0, 0]
    reverified = []
    inlined_all = set()
    declassified = []
    exempt = []
    once_info = {}
    init_listed = []
    filtered_out = [0]
    bridges = set()
    assumed = set()
    math_used = set()
    uncontracted = set()
    contract_src = None
    for tags in configs:
        cfgname = "purego" if "purego" in tags else "default"
        try:
            V = Verifier(a.repo, tags, os.path.join(ROOT, "contracts"), timeout=timeout, need=need, jobs=jobs)
        except Exception as e:
            problems.append(("load", "load/%s" % cfgname, "cannot load /repo with tags %s: %s" % (tags, e), None))
            continue
        contract_src = V.contracts_source
        wanted = list(pm["functions"]) + (list(pm.get("functions_thorough_extra", [])) if tier == "thorough" else [])
        have = {V.display_name(f): f for f in V.functions_with_contracts()}
        variants = {}
        for f_ in V.prog.funcs.values():
            for vc in V.variants_for(f_):
                variants[V.display_name(f_) + "[%s]" % vc.variant] = (f_, vc)
        allfuncs = {V.display_name(f): f for f in V.prog.funcs.values()}
        selected = []
        lemma_names = [w[6:] for w in wanted if w.startswith("lemma:")]
        for pat in wanted:
            if pat.startswith("lemma:"):
                continue
            ms = [n for n in have if fnmatch.fnmatchcase(n, pat)] + [n for n in variants if n == pat]
            if not ms:
                ms2 = [n for n in allfuncs if fnmatch.fnmatchcase(n, pat)]
                if ms2:
                    problems.append(("binding", "%s#contract-binding/%s" % (pat, cfgname), "function %s exists but no contract binds to it" % pat, None))
                elif is_internal_helper(pat):
                    # an unexported helper was folded into its callers (or renamed): its contract has nothing to bind
                    # to, and the callers -- which are still under contract -- are verified against their new bodies
                    # (a call to a function without a contract is executed in line).  Reported in the evidence.
                    notes_missing.append(pat)
                else:
                    problems.append(("binding", "%s#contract-binding/%s" % (pat, cfgname), "function %s named by the property map no longer exists (renamed or removed); its contract cannot be checked" % pat, None))
            for n in ms:
                if n not in selected:
                    selected.append(n)
        for ln_ in lemma_names:
            if ln_ not in V.contracts.lemmas:
                problems.append(("binding", "lemma:%s#missing/%s" % (ln_, cfgname), "lemma %s is not declared in the contracts" % ln_, None))
        for n in [("lemma", x) for x in lemma_names if x in V.contracts.lemmas] + selected:
            t1 = time.time()
            if isinstance(n, tuple):
                rec = V.verify_lemma(n[1])
                n = rec["name"]
            elif n in variants:
                rec = V.verify_function(variants[n][0], contract=variants[n][1])
            else:
                f = have[n]
                rec = V.verify_function(f)
            flt = pm.get("obligation_filter")
            if flt:
                keep = [ob for ob in rec["obligations"] if any(re.search(rx, ob.name) for rx in flt)]
                filtered_out[0] += len(rec["obligations"]) - len(keep)
                rec["obligations"] = keep
            V.discharge(rec["obligations"])
            bad_ = [ob for ob in rec["obligations"] if ob.result is None or ob.result.status != "unsat"]
            if bad_ and not rec["error"] and not isinstance(n, tuple) and len(bad_) <= 40:
                # second opinion before an alarm: the function is executed symbolically once more and the obligations that
                # failed are generated and discharged again (verdict cache off).  A proof found now is a proof; an
                # obligation that fails twice is reported.  Counted in the evidence (reverified_after_failure).
                try:
                    saved_cache = smt.USE_CACHE
                    smt.USE_CACHE = False
                    rec2 = V.verify_function(variants[n][0], contract=variants[n][1]) if n in variants else V.verify_function(have[n])
                    names_ = {ob.name for ob in bad_}
                    again = [ob for ob in rec2["obligations"] if ob.name in names_]
                    if not rec2["error"] and len(again) == len(bad_):
                        V.discharge(again)
                        byname = {ob.name: ob for ob in again}
                        for i_, ob in enumerate(rec["obligations"]):
                            nb = byname.get(ob.name)
                            if nb is not None and nb.result is not None and nb.result.status == "unsat" and (ob.result is None or ob.result.status != "unsat"):
                                rec["obligations"][i_] = nb
                                reverified.append(ob.name)
                finally:
                    smt.USE_CACHE = saved_cache
            for ob in rec["obligations"]:
                ob.config = cfgname
                ob.fullname = ob.name + ("/" + cfgname if len(configs) > 1 else "")
            if rec["error"]:
                problems.append(("undischarged", "%s#symbolic-execution/%s" % (n, cfgname), rec["error"], None))
            if not rec["trusted"] and not rec["error"] and not rec["obligations"]:
                problems.append(("vacuity", "%s#no-obligations/%s" % (n, cfgname), "no obligation was generated", None))
            all_obs.extend(rec["obligations"])
            fn_records.append({"function": n, "config": cfgname, "mode": rec["mode"], "body": rec.get("body", "go/ssa"),
                               "partitions": rec["partitions"], "paths": rec["paths"], "obligations": len(rec["obligations"]),
                               "trusted": rec["trusted"], "secs": round(time.time() - t1, 2)})
        if pm.get("init_check") and cfgname == "default":
            from . import initcheck
            iobs, irecs, ilisted = initcheck.run(V, a.repo)
            for ob in iobs:
                ob.config = cfgname
            all_obs.extend(iobs)
            fn_records.extend(irecs)
            init_listed.extend(ilisted)
        if pm.get("ownership") and cfgname == "default":
            from . import own
            oobs, orecs, once = own.analyse(V)
            for ob in oobs:
                ob.config = cfgname
            all_obs.extend(oobs)
            fn_records.extend(orecs)
            once_info.update(once)
        if pm.get("flow_functions") and cfgname == "default":
            from . import leakcheck
            names = []
            for pat in pm["flow_functions"]:
                names += [n for n in have if fnmatch.fnmatchcase(n, pat) and n not in names]
            lobs, lrecs, ldecl = leakcheck.run(V, names)
            for ob in lobs:
                ob.config = cfgname
            all_obs.extend(lobs)
            fn_records.extend(lrecs)
            declassified.extend(ldecl)
            for n in names:
                c_ = V.contract_for(have[n])
                lk = leakcheck.leak_contract(c_)
                if lk != "none":
                    exempt.append("%s: leak %s" % (n, " ".join(t for k_, t in c_.other if k_ == "leak")))
        libs |= V.lib_used
        inlined_all |= getattr(V, "inlined", set())
        assumed |= V.assumed
        bridges |= V.bridges_used
        math_used |= V.math_used
        # functions reachable from the selected ones that have no contract
        for caller, callees in V.calls.items():
            pass
    # classify
    discharged = 0
    by_kind, by_backend = {}, {}
    solver_secs = 0.0
    slowest = ("", 0.0)
    covers = {"reachable": 0, "undecided": 0, "vacuous": 0}
    undecided_covers = []
    for ob in all_obs:
        r = ob.result
        if ob.kind == "cover" and r is not None and getattr(r, "cover", "") == "undecided":
            # a reachability guard the solvers did not settle: it is neither an obligation of the property nor
            # discharged -- listed apart (coverage.covers.undecided, coverage.undecided_covers), not counted
            covers["undecided"] += 1
            undecided_covers.append(ob.fullname)
            continue
        by_kind.setdefault(ob.kind, [0, 0])
        by_kind[ob.kind][0] += 1
        if r is None:
            problems.append(("undischarged", ob.fullname, "not run", ob))
            continue
        solver_secs += r.secs
        if r.secs > slowest[1]:
            slowest = (ob.fullname, round(r.secs, 2))
        if ob.kind == "cover":
            covers[getattr(r, "cover", "undecided")] = covers.get(getattr(r, "cover", "undecided"), 0) + 1
        if r.status == "unsat":
            discharged += 1
            by_kind[ob.kind][1] += 1
            be = r.solver if not r.cached else "cache(" + r.solver + ")"
            by_backend[be] = by_backend.get(be, 0) + 1
            if r.solver in smt.SOLVERS:
                if getattr(r, "confirmed", 1) >= 2:
                    two_solvers[0] += 1
                else:
                    two_solvers[1] += 1
        else:
            problems.append(("failed" if r.status == "sat" else "undischarged", ob.fullname, r.status, ob))
    # report
    violations = 0
    known_hits = []
    replay_root = os.environ.get("GOVC_REPLAY_DIR", os.path.join(ROOT, "replay"))
    os.makedirs(os.path.join(replay_root, pid), exist_ok=True)
    lines = []
    todo = []
    for kind, name, text, ob in problems:
        kf = match_known(known, pid, name)
        if kf:
            known_hits.append((kf, name))
            continue
        violations += 1
        todo.append((kind, name, text, ob))

    sampled_cache = {}
    import threading as _th
    sampled_lock = _th.Lock()

    def sampled(ob, rep):
        """tier F: run the real function on sampled inputs within its precondition (once per function and partition)"""
        from .sampled import sampled_replay
        key = (ob.fn, ob.part, getattr(ob, "config", "default"))
        with sampled_lock:
            if key not in sampled_cache:
                sampled_cache[key] = sampled_replay(a.repo, ob)
            res = sampled_cache[key]
        if res is None:
            rep["sampled_replay"] = "not applicable to this function (a parameter type or a precondition has no generator / translation)"
            return False
        if res.get("__error__"):
            rep["sampled_replay"] = "sampling harness did not run: " + res["__error__"][-600:]
            return False
        m = re.search(r"#(post|frame|panics?|nopanic|bounds)[.]?([^~@]*)", ob.name)
        kind_, lab_ = (m.group(1), m.group(2)) if m else ("", "")
        hit = None
        if kind_ == "post" and lab_ in res:
            hit = "ensures [%s] is false" % lab_
        elif kind_ == "frame" and "__frame__" in res:
            hit = res["__frame__"]
        elif kind_ in ("nopanic", "bounds") and "__panic__" in res:
            hit = res["__panic__"]
        elif kind_.startswith("panic") and ("__nopanic__" in res or "__panic__" in res):
            hit = res.get("__nopanic__") or res.get("__panic__")
        others = sorted(k for k in res if not k.startswith("__"))
        rep["sampled_replay_inputs_used"] = res.get("__used__")
        if hit:
            rep["replay"] = "REPRODUCED on the real code with a sampled input inside the precondition (trial %s): %s; inputs: %s" % (res.get("__trial__"), hit, res.get("__inputs__", "")[:3000])
            rep["replay_test"] = res.get("__test__", "")
            rep["replay_cmd"] = "go test -overlay <ov.json: govc_sampled_test.go, field/govc_accessor.go> -vet=off -run ^TestGovcSampled$"
            return True
        if others or any(k in res for k in ("__frame__", "__panic__", "__nopanic__")):
            rep["sampled_replay"] = "a sampled input falsifies other clauses of this function (%s) but not this one; inputs: %s" % (", ".join(others + [k for k in ("__frame__", "__panic__", "__nopanic__") if k in res]), res.get("__inputs__", "")[:1500])
        else:
            rep["sampled_replay"] = "%s sampled inputs inside the precondition satisfied every translated clause" % res.get("__used__")
        return False

    def report_one(item):
        kind, name, text, ob = item
        path = os.path.join(replay_root, pid, sanitize(name) + ".json")
        rep = {"property": pid, "obligation": name, "kind": kind, "status": text, "tier": tier}
        tail = ""
        if ob is not None:
            rep.update({"function": ob.fn, "partition": ob.part, "site": ob.site, "claim": ob.descr, "mode": ob.mode,
                        "solver_output": (ob.result.output if ob.result else "")[:6000],
                        "per_solver": ob.result.per_solver if ob.result else {},
                        "model": {k: (v if not isinstance(v, bool) else bool(v)) for k, v in (ob.result.model or {}).items()} if ob.result else {}})
            rep["model"] = {k: str(v) for k, v in rep["model"].items()}
            replayed = None
            if not a.no_replay and ob.result is not None:
                try:
                    from .replay import replay_obligation
                    replayed = replay_obligation(a.repo, ob, rep)
                except Exception as e:  # replay is best effort
                    rep["replay_error"] = "%s: %s" % (type(e).__name__, e)
            if not replayed and not a.no_replay and ob.mode in ("ring", "group") and getattr(ob, "run", None) is not None:
                try:
                    replayed = sampled(ob, rep)
                except Exception as e:
                    rep["sampled_replay_error"] = "%s: %s" % (type(e).__name__, e)
            if not replayed:
                tail = " no-failing-input-found"
                rep["replay"] = rep.get("replay", "no failing input was reproduced on the real code; the obligation above is no longer discharged")
        else:
            tail = " no-failing-input-found"
        json.dump(rep, open(path, "w"), indent=1)
        return "VIOLATION property=%s replay=%s obligation=%s status=%s%s" % (pid, path, name, text.split("\n")[0][:80].replace(" ", "_"), tail)

    if todo:
        import concurrent.futures
        with concurrent.futures.ThreadPoolExecutor(max_workers=6) as ex:
            lines = list(ex.map(report_one, todo))
    seen = set()
    for kf, name in known_hits:
        key = kf["id"]
        if key in seen:
            continue
        seen.add(key)
        print("KNOWN-FINDING: property=%s %s (%s)" % (pid, kf["what"], kf["id"]))
    wall = time.time() - t0
    samples = []
    for ob in all_obs[:: max(1, len(all_obs) // 6)][:6]:
        samples.append({"obligation": ob.fullname, "kind": ob.kind, "claim": ob.descr, "site": ob.site,
                        "status": ob.result.status if ob.result else None, "backend": ob.result.solver if ob.result else None,
                        "secs": round(ob.result.secs, 3) if ob.result else None, "smt_bytes": getattr(ob, "smt_size", 0),
                        "hypotheses": len(ob.hyps)})
    trusted = list(pm.get("trusted_base", []))
    trusted += ["T-lib assumed contract: " + l for l in sorted(libs)]
    trusted += ["K3 instance assumed in %s [%s]: %s" % a_ for a_ in sorted(assumed)]
    trusted += ["T-math used by the tier-F evaluator: " + m_ for m_ in sorted(math_used)]
    ncerts = sum(len(getattr(ob, "lemmas", []) or []) for ob in all_obs)
    trusted += ["LAW bridge (tier-G view of a tier-F primitive, assumed): " + b_ for b_ in sorted(bridges)]
    ev = {
        "property_id": pid, "tier": tier, "seed": seed, "level": pm.get("level", "proof"),
        "coverage": {
            "obligations": len(all_obs) - len(undecided_covers) + sum(1 for p in problems if p[3] is None),
            "discharged": discharged,
            "checker_cmd": "cd /verif && python3-vt -m govc.check --property %s --tier %s" % (pid, tier),
            "trusted_base": trusted,
            "explanation": pm.get("explanation", ""),
            "functions_under_contract": fn_records,
            "by_kind": {k: {"generated": v[0], "discharged": v[1]} for k, v in sorted(by_kind.items())},
            "by_backend": by_backend,
            "solver_seconds": round(solver_secs, 2),
            "smt_verdicts_confirmed_by_two_solvers": two_solvers[0],
            "smt_verdicts_from_one_solver_only": two_solvers[1],
            "reverified_after_failure": sorted(reverified),
            "slowest_obligation": {"name": slowest[0], "secs": slowest[1]},
            "covers": covers,
            "undecided_covers": undecided_covers[:40],
            "ring_lemma_certificates_checked": ncerts,
            "obligation_filter": pm.get("obligation_filter", []),
            "declassified_sinks": declassified,
            "once_guarded_structs": once_info,
            "global_invariants_definitional": init_listed,
            "exempt_functions": exempt,
            "obligations_of_these_functions_belonging_to_other_properties": filtered_out[0],
            "configs": configs,
            "contracts_from": contract_src,
            "not_discharged": [p[1] for p in problems],
            "known_findings_hit": [k["id"] for k, _ in known_hits],
            "bounded": pm.get("bounded", []),
            "not_covered": pm.get("not_covered", []),
            "contracts_without_a_function": sorted(set(notes_missing)),
            "executed_in_line_without_contract": sorted("%s calls %s" % x for x in inlined_all),
            "samples": samples,
        },
        "assumptions": pm.get("assumptions", []) + [
            "extraction drops: the compiler below go/ssa, stack/heap distinction, allocation failure, panic texts, scheduling; int is 64 bits",
            "an `unsat` from any one of z3 4.8.12 / z3 5.1.0 / cvc5 1.0 is believed; a `sat` or a disagreement is never overridden (thorough: a second solver is awaited for every obligation until the timeout; coverage.smt_verdicts_* counts how many verdicts two solvers confirmed)"],
        "wall_s": round(wall, 2),
        "violations": violations,
    }
    evdir = os.environ.get("GOVC_EVIDENCE_DIR", os.path.join(ROOT, "evidence"))
    os.makedirs(evdir, exist_ok=True)
    json.dump(ev, open(os.path.join(evdir, pid + ".json"), "w"), indent=1)
    for l in lines:
        print(l)
    print("%s %s: %d obligations, %d discharged, %d not discharged (%d known), %d functions, %.1fs" % (
        pid, tier, ev["coverage"]["obligations"], discharged, len(problems), len(known_hits), len(fn_records), wall))
    return 1 if violations else 0


def match_known(known, pid, name):
    for kf in known.get("open", []):
        if pid in kf.get("properties", [pid]) and any(fnmatch.fnmatchcase(name, pat) for pat in kf["obligations"]):
            return kf
    return None


if __name__ == "__main__":
    rc = main()
    from govc.ring import kill_pool
    kill_pool()
    sys.stdout.flush()
    sys.stderr.flush()
    os._exit(rc)
