"""Parser for the //@ contract files (comment-only Go files behind the `verif` tag).

Grammar (one clause per line, `\\` at end of line continues):

    //@ const NAME = EXPR
    //@ define NAME(p1, p2, ...) = EXPR
    //@ globalinv [label] EXPR
    //@ func KEY(p1, p2, ...)            KEY = (*T).Method | (T).Method | name | name$1
    //@   mode lia|bv|ring|group|shape
    //@   requires [label] EXPR
    //@   ensures  [label] EXPR
    //@   assigns  LOC, LOC, ...          LOC = *p | p.f | p[...] | nothing
    //@   loop K invariant [label] EXPR | loop K modifies LOC,... | loop K decreases EXPR | loop K var NAME
    //@   ... (other clause kinds are stored verbatim as (kind, text))
"""
import re

TOKEN_RE = re.compile(r"""
    (?P<ws>\s+)
  | (?P<num>0x[0-9a-fA-F_]+|\d[\d_]*)
  | (?P<id>[A-Za-z_][A-Za-z_0-9$]*)
  | (?P<op><==>|==>|&&|\|\||==|!=|<=|>=|<<|>>|\.\.|[-+*/%^&|!<>()\[\],.:?])
""", re.X)


def tokenize(s):
    out = []
    i = 0
    while i < len(s):
        m = TOKEN_RE.match(s, i)
        if not m:
            raise SyntaxError("bad token at %r" % s[i:i + 20])
        i = m.end()
        if m.lastgroup == "ws":
            continue
        out.append((m.lastgroup, m.group(m.lastgroup)))
    out.append(("eof", ""))
    return out


BINPREC = {
    "<==>": 1, "==>": 2, "||": 3, "&&": 4,
    "==": 5, "!=": 5, "<": 5, "<=": 5, ">": 5, ">=": 5,
    "|": 6, "&": 7, "<<": 8, ">>": 8, "+": 9, "-": 9, "*": 10, "/": 10, "%": 10,
}


class Parser:
    def __init__(self, s):
        self.toks = tokenize(s)
        self.i = 0
        self.src = s

    def peek(self):
        return self.toks[self.i]

    def next(self):
        t = self.toks[self.i]
        self.i += 1
        return t

    def accept(self, v):
        if self.toks[self.i][1] == v and self.toks[self.i][0] in ("op", "id"):
            self.i += 1
            return True
        return False

    def expect(self, v):
        if not self.accept(v):
            raise SyntaxError("expected %r at token %d in %r" % (v, self.i, self.src))

    def parse(self):
        e = self.expr(0)
        if self.peek()[0] != "eof":
            raise SyntaxError("trailing tokens in %r at %r" % (self.src, self.peek()))
        return e

    def expr(self, minprec):
        k, v = self.peek()
        if k == "id" and v in ("forall", "exists", "sum", "gsum"):
            self.next()
            var = self.next()[1]
            self.expect("in")
            lo = self.expr(9)
            self.expect("..")
            hi = self.expr(9)
            self.expect(":")
            body = self.expr(0)
            return (v, var, lo, hi, body)
        lhs = self.unary()
        while True:
            k, v = self.peek()
            if k != "op" or v not in BINPREC:
                break
            p = BINPREC[v]
            if p < minprec:
                break
            self.next()
            if v == "==>":
                rhs = self.expr(p)  # right assoc
            else:
                rhs = self.expr(p + 1)
            lhs = ("bin", v, lhs, rhs)
        return lhs

    def unary(self):
        k, v = self.peek()
        if k == "op" and v in ("-", "!"):
            self.next()
            e = self.unary()
            return ("un", v, e)
        return self.power()

    def power(self):
        base = self.postfix()
        if self.peek() == ("op", "^"):
            self.next()
            e = self.unary()
            return ("bin", "^", base, e)
        return base

    def postfix(self):
        e = self.primary()
        while True:
            k, v = self.peek()
            if (k, v) == ("op", "."):
                self.next()
                kk, name = self.next()
                if kk not in ("id", "num"):
                    raise SyntaxError("field name expected in %r" % self.src)
                e = ("field", e, name)
            elif (k, v) == ("op", "["):
                self.next()
                idx = self.expr(0)
                if self.accept(":"):
                    hi = self.expr(0)
                    self.expect("]")
                    e = ("slice", e, idx, hi)
                else:
                    self.expect("]")
                    e = ("index", e, idx)
            else:
                break
        return e

    def primary(self):
        k, v = self.next()
        if k == "num":
            v = v.replace("_", "")
            return ("num", int(v, 16) if v.startswith("0x") else int(v))
        if k == "id":
            if self.peek() == ("op", "("):
                self.next()
                args = []
                if not self.accept(")"):
                    while True:
                        args.append(self.expr(0))
                        if self.accept(")"):
                            break
                        self.expect(",")
                if v == "old":
                    return ("old", args[0])
                return ("call", v, args)
            if v == "true":
                return ("bool", True)
            if v == "false":
                return ("bool", False)
            return ("id", v)
        if (k, v) == ("op", "("):
            e = self.expr(0)
            self.expect(")")
            return e
        if (k, v) == ("op", "*"):
            e = self.unary()
            return ("deref", e)
        raise SyntaxError("unexpected %r in %r" % (v, self.src))


def parse_expr(s):
    return Parser(s).parse()


LABEL_RE = re.compile(r"^\[([A-Za-z0-9_.:\-]+)\]\s*(.*)$")


def split_label(s):
    m = LABEL_RE.match(s.strip())
    if m:
        return m.group(1), m.group(2)
    return None, s.strip()


class FuncContract:
    def __init__(self, key, params, pkg, line):
        self.key = key
        self.params = params
        self.pkg = pkg
        self.line = line
        self.mode = "lia"
        self.requires = []   # (label, ast, text)
        self.ensures = []
        self.ensures_body = []  # checked when the body is verified, never assumed by callers (may name locals)
        self.grequires = []     # tier-G view of the function, used by callers verified in group mode
        self.gensures = []
        self.srequires = []     # tier "Z/l" view of a Scalar method, used by callers verified in ring mode mod l
        self.sensures = []
        self.assigns = None  # list of ast, or None (= nothing may be assigned: pure)
        self.loops = {}      # K -> dict(invariant=[(label,ast,text)], modifies=[ast], decreases=ast, var=name)
        self.other = []      # (kind, text)
        self.trusted = False
        self.variant = None
        self.lemmas = []     # (label, ast, text)
        self.opts = {}

    def loop(self, k):
        return self.loops.setdefault(k, {"invariant": [], "modifies": [], "decreases": None, "var": None, "opts": {}})


class Contracts:
    def __init__(self):
        self.consts = {}     # name -> ast
        self.defines = {}    # name -> (params, ast)
        self.funcs = {}      # (pkg, key) -> FuncContract
        self.globalinv = {}  # pkg -> [(label, ast, text)]
        self.lemmas = {}     # name -> dict(params=[(name, type)], ast, text, pkg)
        self.variants = {}   # (pkg, key) -> [FuncContract]
        self.texts = {}      # path -> text (for hashing / evidence)


def split_top(s, sep=","):
    out, depth, cur = [], 0, ""
    for ch in s:
        if ch in "([":
            depth += 1
        elif ch in ")]":
            depth -= 1
        if ch == sep and depth == 0:
            out.append(cur.strip())
            cur = ""
        else:
            cur += ch
    if cur.strip():
        out.append(cur.strip())
    return out


def parse_file(path, pkg, C):
    text = open(path).read()
    C.texts[path] = text
    lines = []
    cur = None
    for ln, raw in enumerate(text.split("\n"), 1):
        s = raw.strip()
        if not s.startswith("//@"):
            continue
        s = s[3:].strip()
        if not s or s.startswith("#"):
            continue
        # strip trailing comments introduced by ' // '
        if " // " in s:
            s = s[: s.index(" // ")].rstrip()
        if cur is not None:
            cur = (cur[0], cur[1] + " " + s)
        else:
            cur = (ln, s)
        if cur[1].endswith("\\"):
            cur = (cur[0], cur[1][:-1].rstrip())
            continue
        lines.append(cur)
        cur = None
    if cur:
        lines.append(cur)
    fc = None
    for ln, s in lines:
        try:
            kw, _, rest = s.partition(" ")
            rest = rest.strip()
            if kw == "package":
                continue
            if kw == "const":
                name, _, e = rest.partition("=")
                C.consts[name.strip()] = parse_expr(e)
                fc = None
            elif kw == "define":
                m = re.match(r"^([A-Za-z_0-9]+)\s*\(([^)]*)\)\s*=\s*(.*)$", rest)
                if not m:
                    raise SyntaxError("bad define")
                ps = [p.strip() for p in m.group(2).split(",") if p.strip()]
                C.defines[m.group(1)] = (ps, parse_expr(m.group(3)))
                fc = None
            elif kw == "lemma" and fc is None or kw == "lemmadef":
                m = re.match(r"^([A-Za-z_0-9]+)\s*\(([^)]*)\)\s*:\s*(.*)$", rest)
                if not m:
                    raise SyntaxError("bad lemma declaration")
                ps = []
                for part in m.group(2).split(","):
                    part = part.strip()
                    if part:
                        nm, _, ty = part.partition(" ")
                        ps.append((nm.strip(), ty.strip()))
                C.lemmas[m.group(1)] = {"params": ps, "ast": parse_expr(m.group(3)), "text": m.group(3), "pkg": pkg, "line": ln}
            elif kw == "globalinv":
                lab, e = split_label(rest)
                C.globalinv.setdefault(pkg, []).append((lab, parse_expr(e), e))
                fc = None
            elif kw == "func":
                variant = None
                mv = re.match(r"^(.*\))\s+as\s+(\w+)\s*$", rest)
                if mv:
                    rest, variant = mv.group(1), mv.group(2)
                m = re.match(r"^(.*?)\(([^()]*)\)\s*$", rest)
                if not m:
                    raise SyntaxError("bad func header")
                key = m.group(1).strip()
                ps = [p.strip() for p in m.group(2).split(",") if p.strip()]
                fc = FuncContract(key, ps, pkg, ln)
                fc.variant = variant
                if variant:
                    # a second contract of the same function, proved against the same body in another tier;
                    # callers always use the primary contract
                    C.variants.setdefault((pkg, key), []).append(fc)
                else:
                    if (pkg, key) in C.funcs:
                        raise SyntaxError("duplicate contract for %s" % key)
                    C.funcs[(pkg, key)] = fc
            else:
                if fc is None:
                    raise SyntaxError("clause outside func block")
                if kw == "mode":
                    parts = rest.split()
                    fc.mode = parts[0]
                    for p in parts[1:]:
                        k, _, v = p.partition("=")
                        fc.opts[k] = v or True
                elif kw == "requires":
                    lab, e = split_label(rest)
                    fc.requires.append((lab, parse_expr(e), e))
                elif kw == "ensures":
                    lab, e = split_label(rest)
                    fc.ensures.append((lab, parse_expr(e), e))
                elif kw == "grequires":
                    lab, e = split_label(rest)
                    fc.grequires.append((lab, parse_expr(e), e))
                elif kw == "gensures":
                    lab, e = split_label(rest)
                    fc.gensures.append((lab, parse_expr(e), e))
                elif kw == "srequires":
                    lab, e = split_label(rest)
                    fc.srequires.append((lab, parse_expr(e), e))
                elif kw == "sensures":
                    lab, e = split_label(rest)
                    fc.sensures.append((lab, parse_expr(e), e))
                elif kw == "ensuresbody":
                    lab, e = split_label(rest)
                    fc.ensures_body.append((lab, parse_expr(e), e))
                elif kw == "lemma":
                    lab, e = split_label(rest)
                    fc.lemmas.append((lab, parse_expr(e), e))
                elif kw == "assigns":
                    if fc.assigns is None:
                        fc.assigns = []
                    if rest != "nothing":
                        for l in split_top(rest):
                            fc.assigns.append(parse_expr(l))
                elif kw == "trusted":
                    fc.trusted = True
                    fc.other.append(("trusted", rest))
                elif kw == "opt":
                    for p in rest.split():
                        k, _, v = p.partition("=")
                        fc.opts[k] = v or True
                elif kw == "loop":
                    m = re.match(r"^(\d+)\s+(\w+)\s*(.*)$", rest)
                    if not m:
                        raise SyntaxError("bad loop clause")
                    L = fc.loop(int(m.group(1)))
                    sub, arg = m.group(2), m.group(3)
                    if sub == "invariant":
                        lab, e = split_label(arg)
                        L["invariant"].append((lab, parse_expr(e), e))
                    elif sub == "modifies":
                        for l in split_top(arg):
                            L["modifies"].append(parse_expr(l))
                    elif sub == "decreases":
                        L["decreases"] = parse_expr(arg)
                    elif sub == "var":
                        L["var"] = arg.strip()
                    elif sub == "opt":
                        for p in arg.split():
                            k, _, v = p.partition("=")
                            L["opts"][k] = v or True
                    else:
                        raise SyntaxError("bad loop sub-clause %s" % sub)
                else:
                    fc.other.append((kw, rest))
        except SyntaxError as e:
            raise SyntaxError("%s:%d: %s" % (path, ln, e))
    return C
