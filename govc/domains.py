"""Value domains: how machine integers and specification integers are represented and
how a verification condition is printed as SMT-LIB.  One theory per function."""
from .terms import Poly, to_poly, mk_and, mk_or, mk_not, mk_implies, smt_int, conjuncts


class Unsupported(Exception):
    pass


def type_range(width, signed):
    if signed:
        return -(1 << (width - 1)), (1 << (width - 1)) - 1
    return 0, (1 << width) - 1


# =============================================================== LIA

class LiaDomain:
    """Machine integers are mathematical integers (Poly) plus no-wrap obligations."""
    mode = "lia"

    def __init__(self):
        self.counter = 0

    def new_name(self, base):
        self.counter += 1
        return "%s!%d" % (base, self.counter)

    # ---- values
    def const(self, n, ty=None):
        return Poly.const(n)

    def fresh(self, st, name, width, signed, lo=None, hi=None):
        a = self.new_name(name)
        l, h = type_range(width, signed)
        if lo is not None:
            l = max(l, lo)
        if hi is not None:
            h = min(h, hi)
        st.bounds[a] = (l, h)
        st.decl[a] = "Int"
        p = Poly.atom(a)
        st.hyps.append(("<=", Poly.const(l), p))
        st.hyps.append(("<=", p, Poly.const(h)))
        return p

    def fresh_spec(self, st, name):
        a = self.new_name(name)
        st.decl[a] = "Int"
        return Poly.atom(a)

    def concrete(self, x):
        if isinstance(x, Poly) and x.is_const():
            return x.const_val()
        if isinstance(x, int) and not isinstance(x, bool):
            return x
        return None

    def to_spec(self, x, width, signed):
        return x

    def from_spec(self, x, width, signed):
        return x

    # ---- intervals (used only for bounds of linearised monomials and OR-disjointness width)
    def interval(self, st, p):
        lo = hi = 0
        for m, c in p.t.items():
            ml, mh = 1, 1
            for a in m:
                al, ah = st.bounds.get(a, (None, None))
                if al is None and getattr(st, "run", None) is not None:
                    al, ah = st.run.gbounds.get(a, (None, None))
                if al is None:
                    return None, None
                cands = [ml * al, ml * ah, mh * al, mh * ah]
                ml, mh = min(cands), max(cands)
            if c >= 0:
                lo += c * ml
                hi += c * mh
            else:
                lo += c * mh
                hi += c * ml
        return lo, hi

    def divmod_pow2(self, st, x, k):
        key = ("dm", x, k)
        if key in st.cache:
            return st.cache[key]
        c = self.concrete(x)
        if c is not None:
            r = (Poly.const(c >> k), Poly.const(c & ((1 << k) - 1)))
            st.cache[key] = r
            return r
        # x = low + 2^k*high with `high` the terms whose coefficient is divisible by 2^k:
        # floor(x/2^k) = high + floor(low/2^k), x mod 2^k = low mod 2^k
        hi_t = {m: cf >> k for m, cf in x.t.items() if cf % (1 << k) == 0}
        if hi_t and len(hi_t) < len(x.t):
            low = Poly({m: cf for m, cf in x.t.items() if cf % (1 << k) != 0})
            ql, rl = self.divmod_pow2(st, low, k)
            r = (Poly(hi_t) + ql, rl)
            st.cache[key] = r
            return r
        if hi_t and len(hi_t) == len(x.t):
            r = (Poly(hi_t), Poly.const(0))
            st.cache[key] = r
            return r
        qn, rn = self.new_name("q"), self.new_name("r")
        st.decl[qn] = "Int"
        st.decl[rn] = "Int"
        q, r = Poly.atom(qn), Poly.atom(rn)
        lo, hi = self.interval(st, x)
        st.bounds[rn] = (0, (1 << k) - 1)
        if lo is not None:
            st.bounds[qn] = (lo >> k, hi >> k)
        st.hyps.append(("=", x, q * (1 << k) + r))
        st.hyps.append(("<=", Poly.const(0), r))
        st.hyps.append(("<=", r, Poly.const((1 << k) - 1)))
        if lo is not None:
            st.hyps.append(("<=", Poly.const(lo >> k), q))
            st.hyps.append(("<=", q, Poly.const(hi >> k)))
        st.cache[key] = (q, r)
        return q, r

    def binop(self, st, op, x, y, width, signed, site):
        lo, hi = type_range(width, signed)
        if op in ("+", "-", "*"):
            r = x + y if op == "+" else (x - y if op == "-" else x * y)
            if self.concrete(r) is None or not (lo <= self.concrete(r) <= hi):
                st.oblige("nowrap", site, mk_and(("<=", Poly.const(lo), r), ("<=", r, Poly.const(hi))),
                          "%s %s %s fits %s%d" % ("x", op, "y", "int" if signed else "uint", width))
            return r
        if op == "<<":
            k = self.concrete(y)
            if k is None:
                raise Unsupported("lia: shift by non-constant")
            if k >= width:
                return Poly.const(0)
            r = x * (1 << k)
            xlo, xhi = self.interval(st, x)
            if not signed and st.run is not None and "wrapshift" in st.run.c.opts and (xhi is None or (xhi << k) > hi):
                # exact Go semantics: the bits shifted out are dropped:  (x mod 2^(width-k)) * 2^k
                _, rr = self.divmod_pow2(st, x, width - k)
                return rr * (1 << k)
            st.oblige("nowrap", site, mk_and(("<=", Poly.const(lo), r), ("<=", r, Poly.const(hi))),
                      "x << %d loses no bits" % k)
            return r
        if op == ">>":
            k = self.concrete(y)
            if k is None:
                raise Unsupported("lia: shift by non-constant")
            q, _ = self.divmod_pow2(st, x, k)
            return q
        if op == "&":
            for a, b in ((x, y), (y, x)):
                m = self.concrete(b)
                if m is not None and m >= 0:
                    if m == 0:
                        return Poly.const(0)
                    lowz = (m & -m).bit_length() - 1
                    top = m.bit_length()
                    if m == ((1 << top) - 1) ^ ((1 << lowz) - 1):
                        # x & (2^top - 2^lowz) = (x mod 2^top) - (x mod 2^lowz) with the floor remainder; this also
                        # holds for negative two's complement operands
                        _, rt = self.divmod_pow2(st, a, top)
                        if lowz == 0:
                            return rt
                        _, rl = self.divmod_pow2(st, a, lowz)
                        return rt - rl
            for a, b in ((x, y), (y, x)):
                m = self.concrete(b)
                if m is not None and m > 0 and self.concrete(a) is None:
                    # a is 0 or all ones (a select mask): a & m is 0 or m
                    full = (1 << width) - 1
                    st.oblige("andmask", site, mk_or(("=", a, Poly.const(0)), ("=", a, Poly.const(full))), "operand of & with a constant is 0 or all ones")
                    r = self.fresh(st, "and", width, signed, 0, m)
                    st.hyps.append(mk_implies(("=", a, Poly.const(0)), ("=", r, Poly.const(0))))
                    st.hyps.append(mk_implies(("=", a, Poly.const(full)), ("=", r, Poly.const(m))))
                    return r
            raise Unsupported("lia: & with non-mask operand")
        if op == "|":
            # a | b = a + b when a is a multiple of 2^k and 0 <= b < 2^k
            cands = []
            for a, b in ((x, y), (y, x)):
                if not a.t:
                    return b
                k = min(((c & -c).bit_length() - 1) for c in a.t.values())
                if k <= 0:
                    continue
                blo, bhi = self.interval(st, b)
                fits = blo is not None and blo >= 0 and bhi < (1 << k)
                cands.append((fits, k, a, b))
            cands.sort(key=lambda t: (t[0], t[1]), reverse=True)
            if cands:
                fits, k, a, b = cands[0]
                if not fits:
                    st.oblige("ordisjoint", site, mk_and(("<=", Poly.const(0), b), ("<=", b, Poly.const((1 << k) - 1))), "low operand of | below 2^%d" % k)
                r = a + b
                st.oblige("nowrap", site, mk_and(("<=", Poly.const(lo), r), ("<=", r, Poly.const(hi))), "| as + fits")
                return r
            raise Unsupported("lia: | of non-disjoint operands")
        if op in ("/", "%"):
            cy = self.concrete(y)
            if cy is None or cy <= 0:
                raise Unsupported("lia: division by non-constant")
            xl, _ = self.interval(st, x)
            if xl is None or xl < 0:
                st.oblige("nowrap", site, ("<=", Poly.const(0), x), "dividend is non-negative (Go truncates, the encoding floors)")
            r = self.s_bin(st, op, x, y)
            return r
        raise Unsupported("lia: binop %s" % op)

    def unop(self, st, op, x, width, signed, site):
        if op == "-":
            lo, hi = type_range(width, signed)
            r = -x
            st.oblige("nowrap", site, mk_and(("<=", Poly.const(lo), r), ("<=", r, Poly.const(hi))), "negation fits")
            return r
        raise Unsupported("lia: unop %s" % op)

    def cmp(self, op, x, y):
        cx, cy = self.concrete(x), self.concrete(y)
        if cx is not None and cy is not None:
            return {"==": cx == cy, "!=": cx != cy, "<": cx < cy, "<=": cx <= cy, ">": cx > cy, ">=": cx >= cy}[op]
        if isinstance(x, Poly) and isinstance(y, Poly):
            d = x - y
            if d.is_const():
                c = d.const_val()
                return {"==": c == 0, "!=": c != 0, "<": c < 0, "<=": c <= 0, ">": c > 0, ">=": c >= 0}[op]
        if op == "==":
            return ("=", x, y)
        if op == "!=":
            return ("not", ("=", x, y))
        if op == "<":
            return ("<", x, y)
        if op == "<=":
            return ("<=", x, y)
        if op == ">":
            return ("<", y, x)
        if op == ">=":
            return ("<=", y, x)
        raise Unsupported(op)

    def convert(self, st, x, fw, fs, tw, ts, site):
        flo, fhi = type_range(fw, fs)
        tlo, thi = type_range(tw, ts)
        if tlo <= flo and fhi <= thi:
            return x
        c = self.concrete(x)
        if c is not None and tlo <= c <= thi:
            return x
        if c is not None:
            # a constant outside the target range wraps (two's complement), exactly as in Go
            m = c & ((1 << tw) - 1)
            if ts and m >> (tw - 1):
                m -= 1 << tw
            return Poly.const(m)
        lo, hi = self.interval(st, x)
        if lo is not None and tlo <= lo and hi <= thi:
            return x
        if st.run is not None and "wrapconv" in st.run.c.opts:
            # exact narrowing conversion:  ((x - tlo) mod 2^tw) + tlo
            _, rr = self.divmod_pow2(st, x - tlo, tw)
            return rr + tlo
        st.oblige("conv", site, mk_and(("<=", Poly.const(tlo), x), ("<=", x, Poly.const(thi))),
                  "conversion keeps the value")
        return x

    def ite(self, st, c, a, b, width, signed):
        if c is True:
            return a
        if c is False:
            return b
        if a == b:
            return a
        r = self.fresh(st, "ite", width, signed)
        st.hyps.append(mk_implies(c, ("=", r, a)))
        st.hyps.append(mk_implies(mk_not(c), ("=", r, b)))
        return r

    # ---- spec-level ops
    def s_const(self, n):
        return Poly.const(n)

    def s_bin(self, st, op, a, b):
        if op == "+":
            return a + b
        if op == "-":
            return a - b
        if op == "*":
            return a * b
        if op == "^":
            n = self.concrete(b)
            if n is None or n < 0:
                raise Unsupported("spec: symbolic exponent")
            ca = self.concrete(a)
            if ca is not None:
                return Poly.const(ca ** n)
            return a ** n
        if op in ("/", "%", ">>", "<<", "&"):
            cb = self.concrete(b)
            ca = self.concrete(a)
            if ca is not None and cb is not None:
                if op == "/":
                    return Poly.const(ca // cb)
                if op == "%":
                    return Poly.const(ca % cb)
                if op == ">>":
                    return Poly.const(ca >> cb)
                if op == "<<":
                    return Poly.const(ca << cb)
                if op == "&":
                    return Poly.const(ca & cb)
            if cb is None:
                raise Unsupported("spec: %s by non-constant" % op)
            if op == "<<":
                return a * (1 << cb)
            if op == ">>":
                return self.divmod_pow2(st, a, cb)[0]
            if op == "&":
                if cb & (cb + 1) == 0:
                    return self.divmod_pow2(st, a, (cb + 1).bit_length() - 1)[1]
                raise Unsupported("spec: & non-mask")
            if cb > 0 and cb & (cb - 1) == 0:
                q, r = self.divmod_pow2(st, a, cb.bit_length() - 1)
                return q if op == "/" else r
            # general constant divisor: named quotient / remainder
            key = ("dmc", a, cb)
            if key not in st.cache:
                qn, rn = self.new_name("q"), self.new_name("r")
                st.decl[qn] = "Int"
                st.decl[rn] = "Int"
                q, r = Poly.atom(qn), Poly.atom(rn)
                st.bounds[rn] = (0, cb - 1)
                st.hyps.append(("=", a, q * cb + r))
                st.hyps.append(("<=", Poly.const(0), r))
                st.hyps.append(("<=", r, Poly.const(cb - 1)))
                st.cache[key] = (q, r)
            q, r = st.cache[key]
            return q if op == "/" else r
        raise Unsupported("spec op %s" % op)

    def s_neg(self, a):
        return -a

    def s_cmp(self, op, a, b):
        return self.cmp(op, a, b)

    def s_cong(self, st, a, b, m):
        cm = self.concrete(m)
        if cm is None:
            raise Unsupported("cong modulus must be constant")
        d = a - b
        c = self.concrete(d)
        if c is not None:
            return c % cm == 0
        return ("cong0", d, cm)

    def s_ite(self, st, c, a, b):
        if c is True:
            return a
        if c is False:
            return b
        if a == b:
            return a
        n = self.new_name("site")
        st.decl[n] = "Int"
        r = Poly.atom(n)
        st.hyps.append(mk_implies(c, ("=", r, a)))
        st.hyps.append(mk_implies(mk_not(c), ("=", r, b)))
        return r

    # ---- SMT emission
    def emit(self, decl, bounds, hyps, goal, slice_hyps=True, nia=False, wide=None):
        """returns SMT-LIB text asserting hyps and (not goal).  nia=True keeps products of atoms as real
        products (QF_NIA) instead of linearising them -- used for the few lemmas about whole products."""
        hyps = list(hyps)
        # as a hypothesis cong0(d, m) is d = m*k for a fresh k
        newh = []
        extra_decl = {}
        kc = [0]

        def as_hyp(f):
            if isinstance(f, tuple) and f and f[0] == "cong0":
                kc[0] += 1
                kn = "kw!%d" % kc[0]
                extra_decl[kn] = "Int"
                return ("=", f[1], Poly.atom(kn) * f[2])
            if isinstance(f, tuple) and f and f[0] == "and":
                return ("and",) + tuple(as_hyp(g) for g in f[1:])
            return f
        hyps = [as_hyp(h) for h in hyps]
        if slice_hyps:
            hyps = slice_context(hyps, goal, wide)
        mons = {}
        niaatoms = set()

        def pterm(p):
            if not isinstance(p, Poly):
                p = to_poly(p)
            if not p.t:
                return "0"
            parts = []
            for m, c in p.t.items():
                if m == ():
                    parts.append(smt_int(c))
                    continue
                if len(m) == 1:
                    v = "|%s|" % m[0]
                elif nia:
                    v = "(* %s)" % " ".join("|%s|" % a for a in m)
                    niaatoms.update(m)
                else:
                    v = "|m!%s|" % "*".join(m)
                    mons[m] = v
                if c == 1:
                    parts.append(v)
                else:
                    parts.append("(* %s %s)" % (smt_int(c), v))
            if len(parts) == 1:
                return parts[0]
            return "(+ %s)" % " ".join(parts)

        def fterm(f):
            if f is True:
                return "true"
            if f is False:
                return "false"
            k = f[0]
            if k in ("and", "or"):
                return "(%s %s)" % (k, " ".join(fterm(g) for g in f[1:]))
            if k == "not":
                return "(not %s)" % fterm(f[1])
            if k == "=>":
                return "(=> %s %s)" % (fterm(f[1]), fterm(f[2]))
            if k == "iff":
                return "(= %s %s)" % (fterm(f[1]), fterm(f[2]))
            if k in ("=", "<=", "<"):
                d = f[1] - f[2] if isinstance(f[1], Poly) and isinstance(f[2], Poly) else None
                return "(%s %s %s)" % (k, pterm(f[1]), pterm(f[2]))
            if k == "cong0":
                return "(= (mod %s %s) 0)" % (pterm(f[1]), smt_int(f[2]))
            if k == "bvar":
                return "|%s|" % f[1]
            raise Unsupported("lia formula %r" % (k,))

        body = []
        for h in hyps:
            if nia or not isinstance(h, tuple):
                body.append("(assert %s)" % fterm(h))
                continue
            mk = _PRINT_MEMO.get(id(h))
            if mk is not None and mk[0] is h:
                body.append(mk[1])
                mons.update(mk[2])
                continue
            before = set(mons)
            txt = "(assert %s)" % fterm(h)
            newm = {m_: v_ for m_, v_ in mons.items() if m_ not in before}
            # monomials first seen in this hypothesis; those seen earlier in this query are recomputed below
            allm = {}
            _collect_monomials(h, allm)
            if len(_PRINT_MEMO) > 1000000:
                _PRINT_MEMO.clear()
            _PRINT_MEMO[id(h)] = (h, txt, allm)
            mons.update(allm)
            body.append(txt)
        body.append("(assert (not %s))" % fterm(goal))
        used = set()
        for h in hyps + [goal]:
            used |= formula_atoms(h)
        for m in mons:
            used |= set(m)
        used |= niaatoms
        lines = ["(set-logic QF_NIA)" if nia else "(set-logic QF_LIA)"]
        alld = dict(decl)
        alld.update(extra_decl)
        for a in sorted(used):
            srt = alld.get(a, "Int")
            lines.append("(declare-const |%s| %s)" % (a, srt))
        for m, v in sorted(mons.items()):
            lines.append("(declare-const %s Int)" % v)
            # bound of the linearised monomial from the bounds of its atoms, plus McCormick cuts for pairs
            lo, hi = 1, 1
            ok = True
            for a in m:
                if a not in bounds:
                    ok = False
                    break
                al, ah = bounds[a]
                c = [lo * al, lo * ah, hi * al, hi * ah]
                lo, hi = min(c), max(c)
            if ok:
                lines.append("(assert (and (<= %s %s) (<= %s %s)))" % (smt_int(lo), v, v, smt_int(hi)))
                if len(m) == 2:
                    a, b = m
                    (al, ah), (bl, bh) = bounds[a], bounds[b]
                    A, Bv = "|%s|" % a, "|%s|" % b
                    # (a-al)(b-bl)>=0, (ah-a)(bh-b)>=0, (a-al)(bh-b)>=0, (ah-a)(b-bl)>=0
                    lines.append("(assert (>= (+ %s (* %s %s) (* %s %s) %s) 0))" % (v, smt_int(-bl), A, smt_int(-al), Bv, smt_int(al * bl)))
                    lines.append("(assert (>= (+ %s (* %s %s) (* %s %s) %s) 0))" % (v, smt_int(-bh), A, smt_int(-ah), Bv, smt_int(ah * bh)))
                    lines.append("(assert (>= (+ (* -1 %s) (* %s %s) (* %s %s) %s) 0))" % (v, smt_int(bh), A, smt_int(al), Bv, smt_int(-al * bh)))
                    lines.append("(assert (>= (+ (* -1 %s) (* %s %s) (* %s %s) %s) 0))" % (v, smt_int(bl), A, smt_int(ah), Bv, smt_int(-ah * bl)))
        lines.extend(body)
        lines.append("(check-sat)")
        return "\n".join(lines).replace("(* -1 ", "(* (- 1) ")


_ATOMS_MEMO = {}
_PRINT_MEMO = {}


def _collect_monomials(f, out):
    if isinstance(f, Poly):
        for m in f.t:
            if len(m) >= 2:
                out[m] = "|m!%s|" % "*".join(m)
    elif isinstance(f, tuple):
        for g in f[1:]:
            _collect_monomials(g, out)



def formula_atoms(f):
    if isinstance(f, Poly):
        return f.atoms()
    if isinstance(f, tuple) and len(f) > 1:
        k = id(f)
        r = _ATOMS_MEMO.get(k)
        if r is not None and r[0] is f:
            return r[1]
        r = _formula_atoms(f)
        if len(_ATOMS_MEMO) > 2000000:
            _ATOMS_MEMO.clear()
        _ATOMS_MEMO[k] = (f, r)
        return r
    return _formula_atoms(f)


def _formula_atoms(f):
    if isinstance(f, Poly):
        return f.atoms()
    if isinstance(f, tuple):
        s = set()
        if f and f[0] == "bvar":
            return {f[1]}
        if f and f[0] in ("bvvar",):
            return {f[1]}
        if f and f[0] == "uf":
            return formula_atoms(f[2])
        if f and f[0] == "uf2":
            return formula_atoms(f[2]) | formula_atoms(f[3])
        if f and f[0] in ("bvconst", "extract", "zext", "sext"):
            s = set()
            for g in f[1:]:
                if isinstance(g, tuple):
                    s |= formula_atoms(g)
            return s
        for g in f[1:]:
            s |= formula_atoms(g)
        return s
    return set()


WIDE = 48


def slice_context(hyps, goal, wide=None):
    """cone of influence: keep hypotheses transitively sharing a variable with the goal"""
    want = set(formula_atoms(goal))
    if not want:
        return list(hyps)   # `false` as a goal (unreachability): every hypothesis matters
    hv = [formula_atoms(h) for h in hyps]
    keep = [False] * len(hyps)
    changed = True
    while changed:
        changed = False
        for i, vs in enumerate(hv):
            if not keep[i] and (vs & want or not vs):
                keep[i] = True
                # a very wide hypothesis (a sum over a whole digit array, say) is kept but does not make
                # everything it mentions relevant
                if not vs <= want and len(vs) <= (wide or WIDE):
                    want |= vs
                    changed = True
                elif not vs <= want:
                    # of a wide hypothesis only the definitional names (quotient/remainder pairs) become relevant:
                    # their defining equations must come along, the bulk summands need only their ranges
                    extra = {a for a in vs if isinstance(a, str) and a[:2] in ("q!", "r!")} - want
                    if extra:
                        want |= extra
                        changed = True
    # range facts (one-variable hypotheses) of every variable that a kept hypothesis mentions: a wide sum is useless
    # without the ranges of its summands
    mentioned = set()
    for vs, k in zip(hv, keep):
        if k:
            mentioned |= vs
    for i, vs in enumerate(hv):
        if not keep[i] and len(vs) == 1 and vs <= mentioned:
            keep[i] = True
    return [h for h, k in zip(hyps, keep) if k]


# =============================================================== BV

SPECW = 520


def bvc(n, w):
    return ("bvconst", n & ((1 << w) - 1), w)


class BvDomain:
    """Exact fixed-width bit-vector semantics; spec integers are SPECW-bit two's complement vectors.
    Soundness guard: an upper bound on the magnitude (bit length) of every specification term is tracked;
    a sum/shift that could leave the SPECW range is refused, a product that could is replaced by an
    uninterpreted function of its operands (it then only takes part in equality reasoning)."""
    mode = "bv"

    def __init__(self, specw=SPECW):
        self.counter = 0
        self.specw = specw
        self._mag = {}

    def mag(self, t):
        """upper bound on the bit length of |value| of a spec term"""
        k = id(t)
        r = self._mag.get(k)
        if r is not None and r[0] is t:
            return r[1]
        m = self._mag_of(t)
        self._mag[k] = (t, m)
        return m

    def _mag_of(self, t):
        if not isinstance(t, tuple):
            return self.specw
        op = t[0]
        if op == "bvconst":
            v = t[1]
            if v >> (t[2] - 1):
                v = (1 << t[2]) - v
            return max(1, v.bit_length())
        if op == "bvvar":
            return t[2]
        if op == "zext":
            return min(self.width(t[2]), self.mag(t[2]))
        if op == "sext":
            return self.width(t[2])
        if op in ("bvadd", "bvsub"):
            return max(self.mag(t[1]), self.mag(t[2])) + 1
        if op == "bvmul":
            return self.mag(t[1]) + self.mag(t[2])
        if op == "bvshl":
            c = self.concrete(t[2])
            return self.mag(t[1]) + (c if c is not None else self.specw)
        if op in ("bvlshr", "bvand", "bvurem"):
            return self.mag(t[1]) if op != "bvand" else min(self.mag(t[1]), self.mag(t[2]))
        if op == "bvneg":
            return self.mag(t[1])
        if op == "ite":
            return max(self.mag(t[2]), self.mag(t[3]))
        if op == "extract":
            return t[1] - t[2] + 1
        if op == "concat":
            return sum(self.width(x) for x in t[1:])
        if op == "uf":
            return self.specw - 2
        return self.specw

    def guard(self, t, what):
        if self.width(t) == self.specw and self.mag(t) > self.specw - 2:
            raise Unsupported("bv: specification integer may leave the %d-bit range (%s)" % (self.specw, what))
        return t

    def new_name(self, base):
        self.counter += 1
        return "%s!%d" % (base, self.counter)

    def const(self, n, ty=None):
        raise NotImplementedError

    def mconst(self, n, width):
        return bvc(n, width)

    def fresh(self, st, name, width, signed, lo=None, hi=None):
        a = self.new_name(name)
        st.decl[a] = "(_ BitVec %d)" % width
        t = ("bvvar", a, width)
        if lo is not None and hi is not None and not signed:
            st.hyps.append(("bvule", t, bvc(hi, width)))
            if lo > 0:
                st.hyps.append(("bvule", bvc(lo, width), t))
        return t

    def fresh_spec(self, st, name):
        a = self.new_name(name)
        st.decl[a] = "(_ BitVec %d)" % self.specw
        return ("bvvar", a, self.specw)

    def width(self, t):
        k = t[0]
        if k == "bvconst":
            return t[2]
        if k == "bvvar":
            return t[2]
        if k in ("bvadd", "bvsub", "bvmul", "bvand", "bvor", "bvxor", "bvshl", "bvlshr", "bvashr", "bvnot", "bvneg", "bvurem", "bvudiv"):
            return self.width(t[1])
        if k == "extract":
            return t[1] - t[2] + 1
        if k in ("zext", "sext"):
            return t[1] + self.width(t[2])
        if k == "concat":
            return sum(self.width(x) for x in t[1:])
        if k == "ite":
            return self.width(t[2])
        if k in ("uf", "uf2"):
            return self.specw
        raise Unsupported("width of %r" % (k,))

    def concrete(self, x):
        if isinstance(x, tuple) and x and x[0] == "bvconst":
            return x[1]
        if isinstance(x, int) and not isinstance(x, bool):
            return x
        return None

    def sconcrete(self, x, signed):
        c = self.concrete(x)
        if c is None:
            return None
        w = self.width(x)
        if signed and c >= (1 << (w - 1)):
            c -= 1 << w
        return c

    def _fold(self, op, a, b, w):
        m = (1 << w) - 1
        if op == "bvadd":
            return (a + b) & m
        if op == "bvsub":
            return (a - b) & m
        if op == "bvmul":
            return (a * b) & m
        if op == "bvand":
            return a & b
        if op == "bvor":
            return a | b
        if op == "bvxor":
            return a ^ b
        if op == "bvshl":
            return (a << b) & m if b < w else 0
        if op == "bvlshr":
            return a >> b if b < w else 0
        if op == "bvashr":
            s = a - (1 << w) if a >> (w - 1) else a
            return (s >> min(b, w)) & m
        if op == "bvurem":
            return a % b if b else a
        if op == "bvudiv":
            return a // b if b else m
        raise Unsupported(op)

    def mk(self, op, a, b):
        ca, cb = self.concrete(a), self.concrete(b)
        w = self.width(a)
        if ca is not None and cb is not None:
            return bvc(self._fold(op, ca, cb, w), w)
        if op in ("bvadd", "bvor", "bvxor") and ca == 0:
            return b
        if op in ("bvadd", "bvsub", "bvor", "bvxor", "bvshl", "bvlshr", "bvashr") and cb == 0:
            return a
        if op == "bvand" and (ca == 0 or cb == 0):
            return bvc(0, w)
        if op == "bvand" and cb == (1 << w) - 1:
            return a
        if op == "bvand" and ca == (1 << w) - 1:
            return b
        if op == "bvmul" and (ca == 0 or cb == 0):
            return bvc(0, w)
        if op == "bvmul" and cb == 1:
            return a
        if op == "bvmul" and ca == 1:
            return b
        return (op, a, b)

    def resize(self, x, tw, signed):
        w = self.width(x)
        c = self.concrete(x)
        if tw == w:
            return x
        if tw < w:
            if c is not None:
                return bvc(c, tw)
            return ("extract", tw - 1, 0, x)
        if c is not None:
            if signed and c >> (w - 1):
                c -= 1 << w
            return bvc(c, tw)
        return ("sext" if signed else "zext", tw - w, x)

    def binop(self, st, op, x, y, width, signed, site, ywidth=None, ysigned=False):
        if op == "+":
            return self.mk("bvadd", x, y)
        if op == "-":
            return self.mk("bvsub", x, y)
        if op == "*":
            return self.mk("bvmul", x, y)
        if op == "&":
            return self.mk("bvand", x, y)
        if op == "|":
            return self.mk("bvor", x, y)
        if op == "^":
            return self.mk("bvxor", x, y)
        if op == "&^":
            return self.mk("bvand", x, self.unop(st, "^", y, width, signed, site))
        if op in ("<<", ">>"):
            yw = self.width(y)
            cy = self.concrete(y)
            if cy is not None:
                if cy >= width:
                    if op == ">>" and signed:
                        cy = width - 1
                    else:
                        return bvc(0, width)
                yy = bvc(cy, width)
            else:
                if yw < width:
                    yy = ("zext", width - yw, y)
                elif yw > width:
                    # saturate the count
                    big = ("bvuge", y, bvc(width, yw))
                    yy = ("ite", big, bvc(width, width), ("extract", width - 1, 0, y))
                else:
                    yy = y
            if op == "<<":
                return self.mk("bvshl", x, yy)
            return self.mk("bvashr" if signed else "bvlshr", x, yy)
        if op == "/":
            if signed:
                raise Unsupported("bv: signed division")
            return self.mk("bvudiv", x, y)
        if op == "%":
            if signed:
                raise Unsupported("bv: signed remainder")
            return self.mk("bvurem", x, y)
        raise Unsupported("bv: binop %s" % op)

    def unop(self, st, op, x, width, signed, site):
        c = self.concrete(x)
        if op == "^":
            if c is not None:
                return bvc(~c, width)
            return ("bvnot", x)
        if op == "-":
            if c is not None:
                return bvc(-c, width)
            return ("bvneg", x)
        raise Unsupported("bv unop %s" % op)

    def cmp(self, op, x, y, signed=False):
        cx, cy = self.concrete(x), self.concrete(y)
        if cx is not None and cy is not None:
            if signed:
                w = self.width(x)
                cx = cx - (1 << w) if cx >> (w - 1) else cx
                cy = cy - (1 << w) if cy >> (w - 1) else cy
            return {"==": cx == cy, "!=": cx != cy, "<": cx < cy, "<=": cx <= cy, ">": cx > cy, ">=": cx >= cy}[op]
        if op == "==":
            return ("=", x, y)
        if op == "!=":
            return ("not", ("=", x, y))
        pre = "bvs" if signed else "bvu"
        return {"<": (pre + "lt", x, y), "<=": (pre + "le", x, y), ">": (pre + "gt", x, y), ">=": (pre + "ge", x, y)}[op]

    def convert(self, st, x, fw, fs, tw, ts, site):
        return self.resize(x, tw, fs)

    def ite(self, st, c, a, b, width, signed):
        if c is True:
            return a
        if c is False:
            return b
        if a == b:
            return a
        return ("ite", c, a, b)

    def to_spec(self, x, width, signed):
        return self.resize(x, self.specw, signed)

    def from_spec(self, x, width, signed):
        return self.resize(x, width, signed)

    # spec-level
    def s_const(self, n):
        return bvc(n, self.specw)

    def s_bin(self, st, op, a, b):
        W = self.specw
        ca, cb = self.concrete(a), self.concrete(b)
        if op == "^":
            if ca is None or cb is None:
                raise Unsupported("bv spec: symbolic power")
            return bvc(ca ** cb, W)
        if op == "+":
            return self.guard(self.mk("bvadd", a, b), "sum")
        if op == "-":
            return self.guard(self.mk("bvsub", a, b), "difference")
        if op == "*":
            if ca is not None and ca & (ca - 1) == 0 and ca > 0:
                return self.guard(self.mk("bvshl", b, bvc(ca.bit_length() - 1, W)), "product")
            if cb is not None and cb & (cb - 1) == 0 and cb > 0:
                return self.guard(self.mk("bvshl", a, bvc(cb.bit_length() - 1, W)), "product")
            r = self.mk("bvmul", a, b)
            if self.mag(r) > self.specw - 2:
                # too large for this width: an opaque function of the operands
                return ("uf2", "mul", a, b)
            return r
        if op == "<<":
            return self.guard(self.mk("bvshl", a, b), "shift")
        if op == ">>":
            return self.mk("bvlshr", a, b)
        if op == "&":
            return self.mk("bvand", a, b)
        if op == "|":
            return self.mk("bvor", a, b)
        if op == "/":
            if cb is not None and cb & (cb - 1) == 0 and cb > 0:
                return self.mk("bvlshr", a, bvc(cb.bit_length() - 1, W))
            return self.mk("bvudiv", a, b)
        if op == "%":
            if cb is not None and cb & (cb - 1) == 0 and cb > 0:
                return self.mk("bvand", a, bvc(cb - 1, W))
            if cb is not None:
                # `x mod m` for a modulus that is not a power of two has no bit-level meaning here:
                # it is an uninterpreted function of x (sound: can only lose proofs)
                return ("uf", "mod_%d" % cb, a)
            raise Unsupported("bv spec: mod by non-constant")
        raise Unsupported("bv spec op %s" % op)

    def s_neg(self, a):
        c = self.concrete(a)
        if c is not None:
            return bvc(-c, self.specw)
        return ("bvneg", a)

    def s_cmp(self, op, a, b):
        # spec integers are compared as signed numbers of SPECW bits (values stay far below 2^(SPECW-1))
        return self.cmp(op, a, b, signed=True)

    def s_cong(self, st, a, b, m):
        cm = self.concrete(m)
        return self.cmp("==", self.s_bin(st, "%", a, m), self.s_bin(st, "%", b, m))

    def s_ite(self, st, c, a, b):
        if c is True:
            return a
        if c is False:
            return b
        return ("ite", c, a, b)

    def emit(self, decl, bounds, hyps, goal, slice_hyps=True):
        hyps = list(hyps)
        if slice_hyps:
            hyps = slice_context(hyps, goal)
        defs = {}
        order = []

        def t(x):
            if x is True:
                return "true"
            if x is False:
                return "false"
            if id(x) in memo:
                return memo[id(x)]
            k = x[0]
            if k == "bvconst":
                r = "(_ bv%d %d)" % (x[1], x[2])
            elif k == "bvvar":
                r = "|%s|" % x[1]
            elif k == "bvar":
                r = "|%s|" % x[1]
            elif k == "extract":
                r = "((_ extract %d %d) %s)" % (x[1], x[2], t(x[3]))
            elif k == "zext":
                r = "((_ zero_extend %d) %s)" % (x[1], t(x[2]))
            elif k == "sext":
                r = "((_ sign_extend %d) %s)" % (x[1], t(x[2]))
            elif k == "iff":
                r = "(= %s %s)" % (t(x[1]), t(x[2]))
            elif k == "uf":
                ufs.add(x[1])
                r = "(|%s| %s)" % (x[1], t(x[2]))
            elif k == "uf2":
                ufs2.add(x[1])
                r = "(|%s2| %s %s)" % (x[1], t(x[2]), t(x[3]))
            elif k in ("and", "or") and len(x) == 2:
                r = t(x[1])
            else:
                r = "(%s %s)" % (k, " ".join(t(y) for y in x[1:]))
            if len(r) > 60 and k not in ("and", "or", "not", "=>", "iff"):
                nm = "|d!%d|" % len(order)
                srt = None
                try:
                    srt = "(_ BitVec %d)" % self.width(x)
                except Unsupported:
                    srt = "Bool"
                order.append((nm, srt, r))
                r = nm
            memo[id(x)] = r
            keep.append(x)
            return r
        memo = {}
        keep = []
        body = []
        ufs = set()
        ufs2 = set()
        for h in hyps:
            body.append("(assert %s)" % t(h))
        body.append("(assert (not %s))" % t(goal))
        used = set()
        for h in hyps + [goal]:
            used |= formula_atoms(h)
        lines = ["(set-logic QF_UFBV)" if (ufs or ufs2) else "(set-logic QF_BV)"]
        for a in sorted(used):
            lines.append("(declare-const |%s| %s)" % (a, decl.get(a, "Bool")))
        for u in sorted(ufs):
            lines.append("(declare-fun |%s| ((_ BitVec %d)) (_ BitVec %d))" % (u, self.specw, self.specw))
        for u in sorted(ufs2):
            lines.append("(declare-fun |%s2| ((_ BitVec %d) (_ BitVec %d)) (_ BitVec %d))" % (u, self.specw, self.specw, self.specw))
        for nm, srt, r in order:
            lines.append("(define-fun %s () %s %s)" % (nm, srt, r))
        lines.extend(body)
        lines.append("(check-sat)")
        return "\n".join(lines)
