"""C03: leak contracts.  A function under `leak none` must not let a secret reach a branch condition,
an index / slice bound, a shift count, a division operand, or a callee that is allowed to leak.

Secrets: every non-pointer datum reachable from the parameters (scalars, limbs, coordinates, bytes of
input slices, integer parameters such as `cond`) and everything computed from them.  Public: constants,
slice and array lengths, pointer identities, package-level constant data, loop counters built from those,
and integer parameters the contract declares `public`.

The analysis is a forward taint fixpoint over the naive-form go/ssa of the real code (locals are memory
cells, field-insensitive per local), run on every check; each sink is an obligation `leak.<kind>.<n>` that
is discharged when its operand is public.  Declassifications (`declassify branch N reason`) are exactly the
exemptions named in the property: validity decisions of decoders, the is-zero-value test, length tests.
"""
from . import ssa as S

CT_LIB = {
    "math/bits.Mul64", "math/bits.Add64", "math/bits.Sub64",
    "(encoding/binary.littleEndian).Uint64", "(encoding/binary.littleEndian).PutUint64",
    "crypto/subtle.ConstantTimeByteEq", "crypto/subtle.ConstantTimeCompare", "crypto/subtle.ConstantTimeEq",
    "crypto/subtle.ConstantTimeSelect", "errors.New",
    "(*sync.Once).Do",
}
PUBLIC_BUILTINS = {"len", "cap", "ssa:deferstack"}


class Sink:
    def __init__(self, fn, kind, n, pos, what, secret, declass=None):
        self.fn, self.kind, self.n, self.pos, self.what, self.secret, self.declass = fn, kind, n, pos, what, secret, declass

    @property
    def name(self):
        return "%s#leak.%s.%d" % (self.fn, self.kind, self.n)


def is_data_type(prog, t):
    k = prog.kind(t)
    return k not in ("ptr", "slice", "func", "interface")


def analyse(V, f, contract):
    """returns (sinks, notes).  contract.other carries: leak none|vartime, public <param>, declassify branch N reason"""
    prog = V.prog
    fn = V.display_name(f)
    public_params = set()
    declass = {}
    for kind, txt in contract.other:
        if kind == "public":
            public_params.update(x.strip() for x in txt.split(","))
        if kind == "declassify":
            parts = txt.split(None, 2)
            declass[(parts[0], int(parts[1]))] = parts[2] if len(parts) > 2 else ""
    pnames = {}
    for i, p in enumerate(f["params"]):
        nm = contract.params[i] if i < len(contract.params) else p["name"]
        pnames[p["name"]] = nm
    taint = {}      # reg -> bool (data derived from a secret)
    alloc_taint = {}  # alloc reg -> bool
    base = {}       # reg (pointer) -> ('alloc', reg) | ('param',) | ('global',) | ('fresh',)
    for p in f["params"]:
        nm = pnames[p["name"]]
        if is_data_type(prog, p["type"]):
            taint[p["name"]] = nm not in public_params and p["name"] not in public_params
        else:
            taint[p["name"]] = False
            base[p["name"]] = ("param",)

    def tv(v):
        if v is None:
            return False
        k = v["k"]
        if k in ("reg", "param"):
            return taint.get(v["n"], False)
        return False

    def bs(v):
        if v is None:
            return None
        k = v["k"]
        if k in ("reg", "param"):
            return base.get(v["n"])
        if k == "global":
            return ("global",)
        return None

    changed = True
    rounds = 0
    while changed and rounds < 50:
        changed = False
        rounds += 1

        def setr(reg, val):
            nonlocal changed
            if val and not taint.get(reg, False):
                taint[reg] = True
                changed = True
            elif reg not in taint:
                taint[reg] = bool(val)

        def setb(reg, b):
            nonlocal changed
            if b is not None and base.get(reg) != b:
                if reg in base and base[reg] != b:
                    b = ("param",) if "param" in (base[reg][0], b[0]) else b   # conservative merge
                    if base[reg] == b:
                        return
                base[reg] = b
                changed = True

        for blk in f["blocks"]:
            for ins in blk["instrs"]:
                op = ins["op"]
                reg = ins.get("reg")
                if op == "Alloc":
                    alloc_taint.setdefault(reg, False)
                    setb(reg, ("alloc", reg))
                    setr(reg, False)
                elif op == "Store":
                    b = bs(ins["addr"])
                    if b and b[0] == "alloc" and tv(ins["val"]):
                        if not alloc_taint.get(b[1], False):
                            alloc_taint[b[1]] = True
                            changed = True
                    # pointer stored into a local: remember what it points to
                    vb = bs(ins["val"])
                    if b and b[0] == "alloc" and vb is not None:
                        key = "pointee:" + b[1]
                        setb(key, vb)
                elif op == "UnOp":
                    if ins["unop"] == "*":
                        b = bs(ins["x"])
                        t = ins["type"]
                        if is_data_type(prog, t):
                            if b is None or b[0] == "param":
                                setr(reg, True)
                            elif b[0] == "alloc":
                                setr(reg, alloc_taint.get(b[1], False))
                            else:
                                setr(reg, False)
                        else:
                            setr(reg, False)
                            if b and b[0] == "alloc":
                                pb = base.get("pointee:" + b[1])
                                setb(reg, pb if pb else ("param",))
                            elif b and b[0] == "global":
                                setb(reg, ("global",))
                            else:
                                setb(reg, ("param",))
                    else:
                        setr(reg, tv(ins["x"]))
                elif op == "BinOp":
                    setr(reg, tv(ins["x"]) or tv(ins["y"]))
                elif op in ("Convert", "ChangeType", "MakeInterface", "SliceToArrayPointer"):
                    setr(reg, tv(ins["x"]))
                    setb(reg, bs(ins["x"]))
                elif op in ("FieldAddr", "IndexAddr", "Slice"):
                    setr(reg, False)
                    setb(reg, bs(ins["x"]) or ("param",))
                elif op in ("Field", "Index"):
                    setr(reg, tv(ins["x"]))
                elif op == "Extract":
                    setr(reg, tv(ins["x"]))
                    setb(reg, bs(ins["x"]))
                elif op == "Phi":
                    setr(reg, any(tv(e) for e in ins["edges"]))
                elif op == "MakeSlice":
                    setr(reg, False)
                    setb(reg, ("alloc", reg))
                    alloc_taint.setdefault(reg, False)
                elif op == "MakeClosure":
                    setr(reg, False)
                elif op == "Call":
                    fnv = ins["fn"]
                    name = fnv.get("n", "")
                    args = ins["args"]
                    if fnv["k"] == "builtin" and name in PUBLIC_BUILTINS:
                        setr(reg, False)
                    elif fnv["k"] == "builtin" and name == "copy":
                        db, sb = bs(args[0]), bs(args[1])
                        src_secret = sb is None or sb[0] == "param" or (sb[0] == "alloc" and alloc_taint.get(sb[1], False))
                        if db and db[0] == "alloc" and src_secret and not alloc_taint.get(db[1], False):
                            alloc_taint[db[1]] = True
                            changed = True
                        setr(reg, False)
                    else:
                        anyt = any(tv(a) for a in args)
                        anyp = False
                        for a in args:
                            b = bs(a)
                            if b is not None and (b[0] == "param" or (b[0] == "alloc" and alloc_taint.get(b[1], False))):
                                anyp = True
                        res_secret = anyt or anyp
                        t = ins.get("type", "")
                        setr(reg, res_secret and bool(t) and prog.kind(t) != "ptr")
                        if t and prog.kind(t) in ("ptr", "slice"):
                            setb(reg, ("param",) if res_secret else ("fresh",))
                        # a callee writing through a pointer to a local taints that local
                        for a in args:
                            b = bs(a)
                            if b and b[0] == "alloc" and res_secret and not alloc_taint.get(b[1], False):
                                alloc_taint[b[1]] = True
                                changed = True
    # sinks
    sinks = []
    counters = {}

    def sink(kind, ins, what, secret):
        n = counters.get(kind, 0) + 1
        counters[kind] = n
        sinks.append(Sink(fn, kind, n, ins.get("pos", ""), what, secret, declass.get((kind, n))))

    notes = []
    for blk in f["blocks"]:
        for ins in blk["instrs"]:
            op = ins["op"]
            if op == "If":
                sink("branch", ins, "branch condition", tv(ins["cond"]))
            elif op in ("IndexAddr", "Index"):
                sink("index", ins, "array / slice index", tv(ins["index"]))
            elif op == "Slice":
                sink("slicebound", ins, "slice bounds", any(tv(ins.get(k)) for k in ("low", "high", "max")))
            elif op == "BinOp" and ins["binop"] in ("<<", ">>"):
                sink("shift", ins, "shift count", tv(ins["y"]))
            elif op == "BinOp" and ins["binop"] in ("/", "%"):
                sink("div", ins, "division operands", tv(ins["x"]) or tv(ins["y"]))
            elif op == "MakeSlice":
                sink("alloc", ins, "allocation size", tv(ins["len"]))
            elif op == "Call":
                fnv = ins["fn"]
                name = fnv.get("n", "")
                if fnv["k"] == "builtin":
                    continue
                args = ins["args"]
                secret_args = any(tv(a) for a in args) or any((bs(a) or ("x",))[0] == "param" or ((bs(a) or ("x",))[0] == "alloc" and alloc_taint.get((bs(a) or ("x", None))[1], False)) for a in args)
                if name in CT_LIB:
                    continue
                callee = V.prog.funcs.get(name)
                if callee is None:
                    if fnv["k"] in ("reg", "param"):
                        sink("call", ins, "call of a function value", secret_args)
                    else:
                        sink("call", ins, "call of %s, which has no leak contract" % name, secret_args)
                    continue
                cc = V.contract_for(callee)
                if cc is None and callee.get("hasBody"):
                    # a helper without a contract (e.g. extracted by a refactoring): its body is analysed as
                    # `leak none` with every parameter secret, so the call itself is not a sink
                    extra = getattr(V, "flow_extra", None)
                    if extra is None:
                        extra = V.flow_extra = []
                    if callee["name"] not in [x["name"] for x in extra]:
                        extra.append(callee)
                    continue
                lk = None
                if cc is not None:
                    for kind, txt in cc.other:
                        if kind == "leak":
                            lk = txt.split()[0]
                if lk == "none":
                    continue
                sink("call", ins, "call of %s (leak contract: %s)" % (V.display_name(callee), lk or "absent"), secret_args)
    return sinks, notes
