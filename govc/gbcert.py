"""Ideal membership with certificates: Buchberger's algorithm on sparse polynomials over QQ where
every basis element carries its cofactor vector with respect to the original generators.  The search
is untrusted; its result (c, q_i with c*g = sum q_i*h_i) is verified by the caller."""
import time
from sympy.polys.rings import ring
from sympy.polys.domains import QQ
from sympy.polys.orderings import grevlex
from sympy.polys.monomials import monomial_div, monomial_lcm, monomial_mul


class Timeout(Exception):
    pass


def membership(goal_terms, hyps_terms, names, budget=8.0):
    """goal_terms / hyps_terms: dicts {exponent tuple over `names`: int coeff}.
    Returns list of cofactor dicts (rational coefficients as (num, den)) or None."""
    t0 = time.process_time()
    R = ring(names, QQ, grevlex)[0]

    def mk(terms):
        return R.from_dict({tuple(m): QQ(c) for m, c in terms.items()})
    g = mk(goal_terms)
    hs = [mk(h) for h in hyps_terms]
    n = len(hs)
    zero = R.zero
    B = []
    for i, h in enumerate(hs):
        if h == 0:
            continue
        cof = [zero] * n
        cof[i] = R.one
        B.append((h, cof))

    def reduce(p, pc):
        """full reduction of p by B, tracking: p_orig = r + sum(coeffs * basis) -> returns r and cofactors of (p_orig - r)"""
        r = zero
        # we accumulate: p_current = p_orig - sum q_k*B_k ; cof tracks representation of (sum q_k B_k) in terms of hs
        cof = list(pc)
        while p != 0:
            if time.process_time() - t0 > budget:
                raise Timeout()
            lm, lc = p.LM, p.LC
            done = False
            for b, bc in B:
                d = monomial_div(lm, b.LM)
                if d is not None:
                    f = lc / b.LC
                    t = R.term_new(d, f)
                    p = p - t * b
                    cof = [c - t * x if x != 0 else c for c, x in zip(cof, bc)]
                    done = True
                    break
            if not done:
                lt = R.term_new(lm, lc)
                r = r + lt
                p = p - lt
        return r, cof

    def try_goal():
        # g = r + sum q_i h_i where the tracked cofactors of "g" start at 0: representation of g - r is -cof
        r, cof = reduce(g, [zero] * n)
        if r == 0:
            return [-c for c in cof]
        return None

    res = try_goal()
    if res is not None:
        return pack(res)
    pairs = [(i, j) for i in range(len(B)) for j in range(i)]
    try:
        while pairs:
            if time.process_time() - t0 > budget:
                raise Timeout()
            pairs.sort(key=lambda ij: sum(monomial_lcm(B[ij[0]][0].LM, B[ij[1]][0].LM)), reverse=True)
            i, j = pairs.pop()
            (a, ac), (b, bc) = B[i], B[j]
            l = monomial_lcm(a.LM, b.LM)
            if l == monomial_mul(a.LM, b.LM):
                continue   # coprime leading monomials
            ta = R.term_new(monomial_div(l, a.LM), 1 / a.LC)
            tb = R.term_new(monomial_div(l, b.LM), 1 / b.LC)
            s = ta * a - tb * b
            sc = [ta * x - tb * y for x, y in zip(ac, bc)]
            # s = sum sc_i h_i ; reduce s: s = r + (stuff in B)  => r = s - stuff ; cof(r) = sc + cof_delta
            r, cof = reduce(s, sc)
            if r != 0:
                B.append((r, cof))
                k = len(B) - 1
                pairs.extend((k, m) for m in range(k))
                res = try_goal()
                if res is not None:
                    return pack(res)
    except Timeout:
        return None
    return None


def pack(cofs):
    out = []
    for c in cofs:
        d = {}
        for m, v in c.terms():
            d[tuple(m)] = (int(v.numerator), int(v.denominator))
        out.append(d)
    return out


def membership_multi(goals_terms, hyps_terms, names, budget=8.0):
    """like membership() for several goals over one tracked Groebner basis of the hypotheses.
    Returns a list (one entry per goal): cofactor dicts or None."""
    t0 = time.process_time()
    R = ring(names, QQ, grevlex)[0]

    def mk(terms):
        return R.from_dict({tuple(m): QQ(c) for m, c in terms.items()})
    goals = [mk(g) for g in goals_terms]
    hs = [mk(h) for h in hyps_terms]
    n = len(hs)
    zero = R.zero
    B = []
    for i, h in enumerate(hs):
        if h == 0:
            continue
        cof = [zero] * n
        cof[i] = R.one
        B.append((h, cof))

    def reduce(p, pc, deadline=True):
        r = zero
        cof = list(pc)
        while p != 0:
            if deadline and time.process_time() - t0 > budget:
                raise Timeout()
            lm, lc = p.LM, p.LC
            done = False
            for b, bc in B:
                d = monomial_div(lm, b.LM)
                if d is not None:
                    t = R.term_new(d, lc / b.LC)
                    p = p - t * b
                    cof = [c - t * x if x != 0 else c for c, x in zip(cof, bc)]
                    done = True
                    break
            if not done:
                lt = R.term_new(lm, lc)
                r = r + lt
                p = p - lt
        return r, cof

    results = [None] * len(goals)

    def try_goals():
        for k, g in enumerate(goals):
            if results[k] is None:
                r, cof = reduce(g, [zero] * n)
                if r == 0:
                    results[k] = pack([-c for c in cof])
        return all(x is not None for x in results)

    try:
        if try_goals():
            return results
        pairs = [(i, j) for i in range(len(B)) for j in range(i)]
        added = 0
        while pairs:
            if time.process_time() - t0 > budget:
                raise Timeout()
            pairs.sort(key=lambda ij: sum(monomial_lcm(B[ij[0]][0].LM, B[ij[1]][0].LM)), reverse=True)
            i, j = pairs.pop()
            (a, ac), (b, bc) = B[i], B[j]
            l = monomial_lcm(a.LM, b.LM)
            if l == monomial_mul(a.LM, b.LM):
                continue
            ta = R.term_new(monomial_div(l, a.LM), 1 / a.LC)
            tb = R.term_new(monomial_div(l, b.LM), 1 / b.LC)
            s = ta * a - tb * b
            sc = [ta * x - tb * y for x, y in zip(ac, bc)]
            r, cof = reduce(s, sc)
            if r != 0:
                B.append((r, cof))
                k = len(B) - 1
                pairs.extend((k, m) for m in range(k))
                added += 1
                if r.is_ground:
                    break
                if added % 4 == 0 and try_goals():
                    return results
        try_goals()
    except Timeout:
        pass
    return results
