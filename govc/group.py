"""Tier G: Points and the auxiliary point types are opaque values of the curve group.

A group value is a Z-linear combination of point atoms with LIA coefficients (class GVal):
gadd adds coefficient-wise, gneg negates, smul(k, .) scales by the integer term k.  Two such
values with equal coefficients are equal in every abelian group (the normal form of the free
Z-module is derivable from the module axioms A1-A5 of DESIGN 3.3), so an obligation
`pt(v) == smul(k, pt(q))` becomes a conjunction of LIA equalities between coefficients.
That E(GF(p)) with the Edwards law is an abelian group is M5 (trusted mathematics).
"""
from .terms import Poly, mk_and, mk_or, mk_not, mk_implies
from .domains import LiaDomain, Unsupported, type_range

POINT = "filippo.io/edwards25519.Point"
GROUP_OPAQUE = {
    "filippo.io/edwards25519.Point",
    "filippo.io/edwards25519.projP2",
    "filippo.io/edwards25519.projP1xP1",
    "filippo.io/edwards25519.projCached",
    "filippo.io/edwards25519.affineCached",
    "filippo.io/edwards25519/field.Element",
}


class GVal:
    """abstract value of a point-typed cell: a curve point given as a linear combination of atoms,
    a flag wf (the cell holds a well-formed representation whenever it is initialised) and the
    condition under which it is initialised (not the Go zero value)"""
    __slots__ = ("lin", "wf", "init", "raw")
    counter = [0]

    def __init__(self, lin, wf=False, init=False, raw=None):
        self.lin = {a: c for a, c in lin.items() if not (c.is_const() and c.const_val() == 0)}
        self.wf = wf
        self.init = init
        if raw is None:
            GVal.counter[0] += 1
            raw = "g%d" % GVal.counter[0]
        self.raw = raw

    def __eq__(self, o):
        return isinstance(o, GVal) and self.raw == o.raw and self.lin == o.lin and self.wf == o.wf and self.init == o.init

    def __hash__(self):
        return hash(self.raw)

    def __repr__(self):
        return "GVal(%s%s%s)" % (" + ".join("(%s)*%s" % (c, a) for a, c in sorted(self.lin.items())) or "0",
                                 "" if self.wf else ",!wf", "" if self.init is True else ",init=%r" % (self.init,))


class GLin:
    """group-valued specification expression"""
    __slots__ = ("lin", "ref", "val")

    def __init__(self, lin):
        self.lin = {a: c for a, c in lin.items() if not (c.is_const() and c.const_val() == 0)}
        self.ref = None
        self.val = None


def lin_add(a, b):
    r = dict(a)
    for k, v in b.items():
        r[k] = r.get(k, Poly.const(0)) + v
    return r


def lin_scale(a, k):
    return {x: c * k for x, c in a.items()}


def lin_eq(dom, a, b):
    parts = []
    for k in sorted(set(a) | set(b)):
        parts.append(dom.cmp("==", a.get(k, Poly.const(0)), b.get(k, Poly.const(0))))
    return mk_and(*parts)


class GroupDomain(LiaDomain):
    mode = "group"

    def binop(self, st, op, x, y, width, signed, site):
        if op == "^":
            # a ^ m with m in {0, -1} (an arithmetic-shift sign mask): a, or the bitwise complement -a-1
            for a, m in ((x, y), (y, x)):
                lo, hi = self.interval(st, m)
                if lo is not None and lo >= -1 and hi <= 0:
                    cm = self.concrete(m)
                    if cm == 0:
                        return a
                    if cm == -1:
                        return -a - 1
                    return self.ite(st, ("=", m, Poly.const(0)), a, -a - 1, width, signed)
        if op in ("|", "&"):
            xl, xh = self.interval(st, x)
            yl, yh = self.interval(st, y)
            if xl is not None and yl is not None and xl >= 0 and yl >= 0 and xh <= 1 and yh <= 1 and (self.concrete(x) is None or self.concrete(y) is None):
                r = self.fresh(st, "flag", width, signed, 0, 1)
                if op == "|":
                    st.assume(("<=", x, r))
                    st.assume(("<=", y, r))
                    st.assume(("<=", r, x + y))
                else:
                    st.assume(("<=", r, x))
                    st.assume(("<=", r, y))
                    st.assume(("<=", x + y - 1, r))
                return r
        return super().binop(st, op, x, y, width, signed, site)
