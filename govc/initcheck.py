"""Global invariants (`globalinv`) are assumed at the entry of every function.  They are facts about
package-level values that are computed once by the package initialisers and (own.globalwrite, C18) never
written again, so each of them is a *ground* statement.  This module discharges them by evaluating the
contract clause, translated to Go over math/big, on the real initialised values: a test file and a small
accessor file for the limbs are injected with `go test -overlay` (nothing is written to /repo).

Tier-G invariants (`pt(identity) == gid()` ...) introduce the abstract names of the two package points and
are definitional; they are listed, not executed.
"""
import json
import os
import re
import shutil
import subprocess
import tempfile

from . import ssa as S
from . import smt
from .replay import GoGen, HELPERS

FIELD = "filippo.io/edwards25519/field"
MAIN = "filippo.io/edwards25519"

RING_HELPERS = r'''
var pP, _ = new(big.Int).SetString("57896044618658097711785492504343953926634992332820282019728792003956564819949", 10)
func lvL(l [5]uint64) *big.Int {
	z := new(big.Int)
	for i := 4; i >= 0; i-- { z.Lsh(z, 51); z.Add(z, new(big.Int).SetUint64(l[i])) }
	return z
}
func limbsLE(l [5]uint64, b uint64) bool { for _, x := range l { if x > b { return false } }; return true }
func finvB(x *big.Int) *big.Int { return new(big.Int).Exp(new(big.Int).Mod(x, pP), new(big.Int).Sub(pP, big.NewInt(2)), pP) }
func fpowB(x, e *big.Int) *big.Int { return new(big.Int).Exp(new(big.Int).Mod(x, pP), e, pP) }
'''

ACCESSOR = '''package field

// injected by govc with go -overlay (never written to the repository): read access to the limbs
func GovcLimbs(e *Element) [5]uint64 { return [5]uint64{e.l0, e.l1, e.l2, e.l3, e.l4} }
'''


class RingGoGen(GoGen):
    """GoGen + the tier-F vocabulary, evaluated on real limbs"""

    def __init__(self, prog, contracts, env, pkgname, assigned=None):
        super().__init__(prog, contracts, env, assigned, MAIN if pkgname == "edwards25519" else FIELD)
        self.pkgname = pkgname

    def limbs(self, x):
        e, t = self.valexpr(x)
        if self.prog.kind(t) == "ptr":
            e = "(*%s)" % e
        if self.pkgname == "field":
            return "GovcLimbs(&%s)" % e
        return "field.GovcLimbs(&%s)" % e

    def call(self, name, args, old):
        if name == "lv":
            return ("int", "lvL(%s)" % self.limbs(self.tr(args[0], old)), None)
        if name in ("inv", "tight", "small", "canon"):
            bound = {"inv": "(1<<52)-38", "tight": "(1<<51)+(1<<18)-1", "small": "(1<<51)-1", "canon": "(1<<51)-1"}[name]
            l = self.limbs(self.tr(args[0], old))
            r = "limbsLE(%s, %s)" % (l, bound)
            if name == "canon":
                r = "(%s && lvL(%s).Cmp(pP) < 0)" % (r, l)
            return ("bool", r, None)
        if name in ("iszero", "rawzero"):
            return ("bool", "(%s == [5]uint64{0, 0, 0, 0, 0})" % self.limbs(self.tr(args[0], old)), None)
        if name == "isone":
            return ("bool", "(%s == [5]uint64{1, 0, 0, 0, 0})" % self.limbs(self.tr(args[0], old)), None)
        if name == "eqlimbs":
            return ("bool", "(%s == %s)" % (self.limbs(self.tr(args[0], old)), self.limbs(self.tr(args[1], old))), None)
        if name == "finv":
            return ("int", "finvB(%s)" % self.big(self.tr(args[0], old)), None)
        if name == "fpow":
            return ("int", "fpowB(%s, %s)" % (self.big(self.tr(args[0], old)), self.big(self.tr(args[1], old))), None)
        return super().call(name, args, old)


class InitOb:
    def __init__(self, pkgshort, label, text, ok, why, backend):
        self.name = "%s.init#init.%s@ground" % (pkgshort, label)
        self.fullname = self.name
        self.kind = "init"
        self.fn = pkgshort + ".init"
        self.part = "ground"
        self.site = ""
        self.descr = text
        self.mode = "ground"
        self.hyps = ()
        self.goal = True
        self.trivial = "ground"
        self.smt_size = 0
        self.result = smt.Result("unsat", backend, 0.0) if ok else smt.Result("sat", backend, 0.0, why)


def run(V, repo):
    """returns (obligations, records, listed_only)"""
    prog = V.prog
    obs, listed = [], []
    for pkg, pkgname, pkgdir in ((FIELD, "field", "field"), (MAIN, "edwards25519", ".")):
        invs = V.contracts.globalinv.get(pkg, [])
        env = {}
        for gname, g in prog.globals.items():
            if not gname.startswith(pkg + "."):
                continue
            short = gname[len(pkg) + 1:]
            t = prog.elem(g["type"])
            k = prog.kind(t)
            if k == "ptr":
                env[short] = ("ptr", short, prog.elem(t), None)
            elif prog.int_info(t):
                env[short] = ("int", short, t, None)
            elif k in ("struct", "array"):
                env[short] = ("val", short, t, None)
        gen = RingGoGen(prog, V.contracts, env, pkgname)
        checks = []
        for lab, ast, txt in invs:
            label = (lab or "inv").replace(":", "_")
            if (lab or "").startswith("G:"):
                listed.append("%s [%s] %s  (tier-G naming of a package-level point: definitional)" % (pkgname, lab, txt))
                continue
            try:
                kind, expr, _ = gen.tr(ast)
                checks.append((label, txt, expr))
            except Exception as e:
                obs.append(InitOb(pkgname, label, txt, False, "cannot translate for ground evaluation: %s" % e, "go test (ground evaluation)"))
        if not checks:
            continue
        imports = ['"fmt"', '"math/big"', '"reflect"', '"testing"']
        if pkgname == "edwards25519":
            imports.append('"filippo.io/edwards25519/field"')
        src = ["package %s" % pkgname, "", "import (", "\n".join("\t" + x for x in imports), ")", "", "var _ = reflect.DeepEqual", "var _ = big.NewInt",
               HELPERS, RING_HELPERS, "", "func TestGovcInit(t *testing.T) {"]
        if pkgname == "edwards25519":
            src.insert(7, "var _ = field.GovcLimbs")
        for label, txt, expr in checks:
            src.append("\treport(%s, %s)" % (json.dumps(label), expr))
        src.append("}")
        text = "\n".join(src) + "\n"
        tmp = tempfile.mkdtemp(prefix="govc_init_")
        try:
            tf = os.path.join(tmp, "govc_init_test.go")
            af = os.path.join(tmp, "govc_accessor.go")
            open(tf, "w").write(text)
            open(af, "w").write(ACCESSOR)
            ov = os.path.join(tmp, "ov.json")
            json.dump({"Replace": {os.path.join(repo, pkgdir, "govc_init_test.go"): tf,
                                   os.path.join(repo, "field", "govc_accessor.go"): af}}, open(ov, "w"))
            cmd = ["go", "test", "-overlay", ov, "-vet=off", "-count=1", "-timeout", "120s", "-v", "-run", "^TestGovcInit$", "./" + pkgdir]
            r = subprocess.run(cmd, cwd=repo, capture_output=True, env=S.GOENV, timeout=300)
            out = r.stdout.decode(errors="replace") + r.stderr.decode(errors="replace")
        finally:
            shutil.rmtree(tmp, ignore_errors=True)
        res = {}
        for m in re.finditer(r"^GOVC-REPLAY (\{.*\})$", out, re.M):
            try:
                d = json.loads(m.group(1))
                res[d["clause"]] = d["ok"]
            except Exception:
                pass
        for label, txt, expr in checks:
            if label in res:
                obs.append(InitOb(pkgname, label, txt, bool(res[label]), "the real initialised values do not satisfy: %s" % txt, "go test (ground evaluation on the real values)"))
            else:
                obs.append(InitOb(pkgname, label, txt, False, "ground evaluation did not run: " + out[-600:], "go test (ground evaluation on the real values)"))
    recs = [{"function": "field.init / edwards25519.init", "config": "default", "mode": "ground", "body": "package initialisers (executed)", "partitions": ["ground"],
             "paths": 1, "obligations": len(obs), "trusted": False, "secs": 0.0}]
    return obs, recs, listed
