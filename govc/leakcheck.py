"""Property C03 driver part: run the taint analysis of flow.py over every function whose contract says
`leak none`, and report each sink as an obligation."""
from . import flow
from . import smt


class LeakOb:
    """obligation record compatible with check.py's reporting"""
    def __init__(self, sink, fn, discharged, why):
        self.name = sink.name + "@flow"
        self.fullname = self.name
        self.kind = "leak"
        self.fn = fn
        self.part = "flow"
        self.site = sink.pos
        self.descr = "%s is independent of the secrets%s" % (sink.what, (" [declassified: %s]" % sink.declass) if sink.declass else "")
        self.mode = "flow"
        self.hyps = ()
        self.goal = True
        self.trivial = why
        self.smt_size = 0
        if discharged:
            self.result = smt.Result("unsat", "taint-analysis" if not sink.declass else "declassified", 0.0)
        else:
            self.result = smt.Result("sat", "taint-analysis", 0.0, "a secret-dependent value reaches this %s (%s)" % (sink.kind, sink.what))
        self.declass = sink.declass


def leak_contract(c):
    for kind, txt in c.other:
        if kind == "leak":
            return txt.split()[0]
    return None


def run(V, names):
    """names: display names of functions to analyse.  returns (obligations, records, declassified list)"""
    obs, recs, decl = [], [], []
    have = {V.display_name(f): f for f in V.functions_with_contracts()}
    for n in names:
        f = have[n]
        c = V.contract_for(f)
        lk = leak_contract(c)
        if lk != "none":
            continue
        if not f["hasBody"]:
            # assembly: straight-line, allow-listed instructions, argument-relative addresses only
            body = V.asm_funcs().get(f["short"])
            if body is None:
                continue
            from .asm import ALLOWED
            k = 0
            for mn, ops, ln in body["instrs"]:
                k += 1
                ok = mn in ALLOWED
                s = flow.Sink(n, "asm", k, "fe_amd64.s:%d" % ln, "instruction %s is straight-line and in the constant-time allow-list" % mn, not ok)
                obs.append(LeakOb(s, n, ok, "allow-list"))
            recs.append({"function": n, "config": "default", "mode": "flow(asm)", "body": "field/fe_amd64.s", "partitions": ["flow"], "paths": 1,
                         "obligations": k, "trusted": False, "secs": 0.0})
            continue
        sinks, notes = flow.analyse(V, f, c)
        for s in sinks:
            ok = (not s.secret) or (s.declass is not None)
            if s.secret and s.declass is not None:
                decl.append("%s %s.%d at %s: %s" % (n, s.kind, s.n, s.pos, s.declass))
            obs.append(LeakOb(s, n, ok, "public operand" if not s.secret else "declassified"))
        recs.append({"function": n, "config": "default", "mode": "flow", "body": "go/ssa", "partitions": ["flow"], "paths": 1,
                     "obligations": len(sinks), "trusted": False, "secs": 0.0})
    # helpers without a contract that `leak none` functions call: analysed under the default contract (all secret)
    done = set()
    while True:
        todo = [f for f in getattr(V, "flow_extra", []) if f["name"] not in done]
        if not todo:
            break
        from .cparse import FuncContract
        for f in todo:
            done.add(f["name"])
            n = V.display_name(f)
            c = FuncContract(f["short"], [p["name"] for p in f["params"]], f.get("pkg", ""), 0)
            sinks, notes = flow.analyse(V, f, c)
            for s in sinks:
                obs.append(LeakOb(s, n, not s.secret, "public operand"))
            recs.append({"function": n + " (no contract: analysed as leak none, all parameters secret)", "config": "default", "mode": "flow", "body": "go/ssa",
                         "partitions": ["flow"], "paths": 1, "obligations": len(sinks), "trusted": False, "secs": 0.0})
    return obs, recs, decl
