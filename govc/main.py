"""govc command line (development driver; the property-level driver is check.py)."""
import argparse
import sys
import time

from .verifier import Verifier


def main():
    ap = argparse.ArgumentParser()
    ap.add_argument("--repo", default="/repo")
    ap.add_argument("--tags", default="verif")
    ap.add_argument("--contracts", default="/verif/contracts")
    ap.add_argument("--timeout", type=int, default=20)
    ap.add_argument("--jobs", type=int, default=6)
    ap.add_argument("--only", default=None)
    ap.add_argument("--dump", default=None, help="dump SMT of obligations whose name contains this")
    ap.add_argument("-v", action="store_true")
    a = ap.parse_args()
    import os
    os.environ.setdefault("GOVC_CONTRACTS", "mirror")
    t0 = time.time()
    V = Verifier(a.repo, a.tags, a.contracts, a.timeout, jobs=a.jobs)
    print("loaded in %.1fs; contracts from %s" % (time.time() - t0, V.contract_files))
    tot = ok = 0
    items = [("lemma", n) for n in sorted(V.contracts.lemmas)] + [("func", f) for f in V.functions_with_contracts()]
    for f in list(V.prog.funcs.values()):
        for vc in V.variants_for(f):
            items.append(("variant", (f, vc)))
    for kind, f in items:
        name = ("lemma$" + f) if kind == "lemma" else (V.display_name(f[0]) + "[%s]" % f[1].variant) if kind == "variant" else V.display_name(f)
        if a.only and not any(x in name for x in a.only.split(",")):
            continue
        t1 = time.time()
        rec = V.verify_lemma(f) if kind == "lemma" else V.verify_function(f[0], contract=f[1]) if kind == "variant" else V.verify_function(f)
        name = rec["name"]
        if os.environ.get("GOVC_ONLY_OB"):
            rec["obligations"] = [o for o in rec["obligations"] if any(x in o.name for x in os.environ["GOVC_ONLY_OB"].split(","))]
        V.discharge(rec["obligations"])
        bad = [o for o in rec["obligations"] if o.result is None or o.result.status != "unsat"]
        n = len(rec["obligations"])
        tot += n
        ok += n - len(bad)
        triv = sum(1 for o in rec["obligations"] if o.trivial)
        print("%-55s %s parts=%d paths=%d obl=%d (syntactic %d) failed=%d  %.1fs %s" % (
            name, rec["mode"], len(rec["partitions"]), rec["paths"], n, triv, len(bad), time.time() - t1,
            ("ERROR " + rec["error"]) if rec["error"] else ""))
        if rec["error"] and a.v:
            print(rec.get("trace", ""))
        for o in bad:
            print("    FAIL %-60s %s [%s] %s" % (o.name, o.result.status if o.result else "?", o.descr, (o.result.output[:300] if o.result and o.result.status in ("error",) else "")))
            if o.result and o.result.status == "sat" and a.v:
                print("      model:", {k: v for k, v in list(o.result.model.items())[:40]})
        if a.dump:
            for o in rec["obligations"]:
                if a.dump in o.name and hasattr(o, "smt_text"):
                    open("/tmp/dump_%s.smt2" % o.name.replace("/", "_").replace("#", "_")[:80], "w").write(o.smt_text)
    print("TOTAL obligations %d discharged %d in %.1fs" % (tot, ok, time.time() - t0))


if __name__ == "__main__":
    main()
    import os, sys
    from govc.ring import kill_pool
    kill_pool()
    sys.stdout.flush()
    os._exit(0)
