"""C18: ownership discipline that implies data-race freedom (no interleaving is explored).

Obligations, decided over the go/ssa of every non-test function on every run:
  own.globalwrite   no Store through, and no callee `assigns` of, memory reachable from a package-level variable
                    -- except in package initialisers and in the function literal handed to X.initOnce.Do where the
                    written location lies inside the same package-level struct X
  own.publish       the address of a Once-guarded table (X.table) is taken only inside that literal or at a point
                    dominated by the X.initOnce.Do call
  own.closure       the Once literals are referenced only as the argument of that Do call
"""
from . import ssa as S
from . import smt


class OwnOb:
    def __init__(self, fn, kind, n, pos, descr, ok, why=""):
        self.name = "%s#own.%s.%d@static" % (fn, kind, n)
        self.fullname = self.name
        self.kind = "own"
        self.fn = fn
        self.part = "static"
        self.site = pos
        self.descr = descr
        self.mode = "static"
        self.hyps = ()
        self.goal = True
        self.trivial = "static"
        self.smt_size = 0
        self.result = smt.Result("unsat", "ownership-analysis", 0.0) if ok else smt.Result("sat", "ownership-analysis", 0.0, why or descr)


def analyse(V):
    prog = V.prog
    obs, recs = [], []
    once_structs = {}   # global name -> closure function name
    # find Once.Do call sites:  Do(FieldAddr(global G, initOnce), MakeClosure(fn))
    for name, f in prog.funcs.items():
        defs = {}
        for b in f["blocks"]:
            for ins in b["instrs"]:
                if ins.get("reg"):
                    defs[ins["reg"]] = ins
        for b in f["blocks"]:
            for ins in b["instrs"]:
                if ins["op"] == "Call" and ins["fn"].get("n") == "(*sync.Once).Do":
                    a0, a1 = ins["args"][0], ins["args"][1]
                    g = None
                    d0 = defs.get(a0.get("n"))
                    if d0 and d0["op"] == "FieldAddr" and d0["x"]["k"] == "global":
                        g = d0["x"]["n"]
                    d1 = defs.get(a1.get("n"))
                    fnn = None
                    if d1 and d1["op"] == "MakeClosure":
                        fnn = d1["fn"]["n"]
                    elif a1["k"] == "func":
                        fnn = a1["n"]
                    once_structs[g] = (fnn, name)
    closures = {v[0]: g for g, v in once_structs.items() if v[0]}

    for name, f in sorted(prog.funcs.items()):
        if not f["hasBody"]:
            continue
        dn = V.display_name(f)
        is_init = f["short"] == "init" or f["short"].startswith("init#")
        owner = closures.get(name)        # global struct this literal may write
        prov = {}      # reg -> global name the pointer derives from
        defs = {}
        for b in f["blocks"]:
            for ins in b["instrs"]:
                if ins.get("reg"):
                    defs[ins["reg"]] = ins
        changed = True
        while changed:
            changed = False
            for b in f["blocks"]:
                for ins in b["instrs"]:
                    reg = ins.get("reg")
                    op = ins["op"]
                    src = None
                    if op in ("FieldAddr", "IndexAddr", "Slice", "ChangeType", "Convert", "SliceToArrayPointer"):
                        x = ins["x"]
                        src = x["n"] if x["k"] == "global" else prov.get(x.get("n"))
                    elif op == "UnOp" and ins["unop"] == "*":
                        x = ins["x"]
                        t = ins["type"]
                        if prog.kind(t) in ("ptr", "slice"):
                            src = x["n"] if x["k"] == "global" else prov.get(x.get("n"))
                    if src and prov.get(reg) != src:
                        prov[reg] = src
                        changed = True
        k = 0
        nobs = 0
        for b in f["blocks"]:
            for ins in b["instrs"]:
                op = ins["op"]
                if op == "Store":
                    a = ins["addr"]
                    g = a["n"] if a["k"] == "global" else prov.get(a.get("n"))
                    if g is None:
                        continue
                    k += 1
                    ok = is_init or (owner is not None and g == owner)
                    obs.append(OwnOb(dn, "globalwrite", k, ins.get("pos", ""), "write to package-level memory %s happens only in an initialiser or inside its own Once literal" % g.split(".")[-1], ok,
                                     "store to memory reachable from package-level variable %s outside init / its Once literal" % g))
                    nobs += 1
                elif op == "Call":
                    fnv = ins["fn"]
                    cal = fnv.get("n", "")
                    if fnv["k"] == "builtin":
                        if cal == "copy":
                            a = ins["args"][0]
                            g = a["n"] if a["k"] == "global" else prov.get(a.get("n"))
                            if g:
                                k += 1
                                obs.append(OwnOb(dn, "globalwrite", k, ins.get("pos", ""), "copy into package-level memory", is_init or g == owner))
                                nobs += 1
                        continue
                    callee = prog.funcs.get(cal)
                    cc = V.contract_for(callee) if callee else None
                    for i, a in enumerate(ins["args"]):
                        g = a["n"] if a["k"] == "global" else prov.get(a.get("n"))
                        if g is None:
                            continue
                        if cal == "(*sync.Once).Do" and i == 0:
                            continue
                        writes = None
                        if cc is not None:
                            pn = cc.params[i] if i < len(cc.params) else None
                            names = set()
                            for asg in (cc.assigns or []):
                                n_ = asg
                                while n_[0] in ("deref", "field", "index", "slice"):
                                    n_ = n_[1]
                                if n_[0] == "id":
                                    names.add(n_[1])
                            writes = pn in names
                        elif cal.startswith("(encoding/binary.littleEndian).Uint64") or cal in ("crypto/subtle.ConstantTimeCompare",):
                            writes = False
                        else:
                            writes = True   # unknown callee: assume it may write
                        if writes:
                            k += 1
                            ok = is_init or (owner is not None and g == owner)
                            obs.append(OwnOb(dn, "globalwrite", k, ins.get("pos", ""), "callee %s may write package-level memory %s passed to it" % (cal, g.split(".")[-1]), ok))
                            nobs += 1
                elif op == "FieldAddr" and ins["x"]["k"] == "global" and ins["x"]["n"] in once_structs:
                    # publication of a Once-guarded member other than the Once itself
                    g = ins["x"]["n"]
                    _, und = prog.under(prog.elem(ins["x"]["t"]))
                    fname = und["fields"][ins["field"]]["name"] if und.get("fields") else str(ins["field"])
                    if fname == "initOnce":
                        continue
                    k += 1
                    ok = owner == g or dominated_by_do(f, b, ins, g)
                    obs.append(OwnOb(dn, "publish", k, ins.get("pos", ""), "address of %s.%s is taken only after %s.initOnce.Do (or inside its literal)" % (g.split(".")[-1], fname, g.split(".")[-1]), ok))
                    nobs += 1
                elif op == "MakeClosure" and ins["fn"]["n"] in closures:
                    k += 1
                    # must be used only as the Do argument
                    uses_ok = True
                    for b2 in f["blocks"]:
                        for j in b2["instrs"]:
                            if j is ins:
                                continue
                            for key in ("x", "val", "addr"):
                                v = j.get(key)
                                if isinstance(v, dict) and v.get("n") == ins["reg"]:
                                    uses_ok = False
                            if j["op"] == "Call":
                                for ai, a in enumerate(j["args"]):
                                    if a.get("n") == ins["reg"] and not (j["fn"].get("n") == "(*sync.Once).Do" and ai == 1):
                                        uses_ok = False
                    obs.append(OwnOb(dn, "closure", k, ins.get("pos", ""), "the Once literal is used only as the argument of Do", uses_ok))
                    nobs += 1
        if nobs:
            recs.append({"function": dn, "config": "default", "mode": "static", "body": "go/ssa", "partitions": ["static"], "paths": 1,
                         "obligations": nobs, "trusted": False, "secs": 0.0})
    # one summary obligation per function without any global interaction keeps the count honest: none
    return obs, recs, {g.split(".")[-1]: (v[0] or "?").split(".")[-1] for g, v in once_structs.items() if g}


def dominated_by_do(f, blk, ins, g):
    """is `ins` preceded, in its block or in a dominating block, by a call X.initOnce.Do for the same global X?"""
    dom = S.dominators(f)
    defs = {}
    for b in f["blocks"]:
        for i in b["instrs"]:
            if i.get("reg"):
                defs[i["reg"]] = i

    def is_do(i):
        if i["op"] == "Call" and i["fn"].get("n") == "(*sync.Once).Do":
            d0 = defs.get(i["args"][0].get("n"))
            return bool(d0 and d0["op"] == "FieldAddr" and d0["x"].get("n") == g)
        return False
    for b in f["blocks"]:
        if b["idx"] in dom[blk["idx"]] and b["idx"] != blk["idx"]:
            if any(is_do(i) for i in b["instrs"]):
                return True
    for i in blk["instrs"]:
        if i is ins:
            return False
        if is_do(i):
            return True
    return False
