"""Replay of a solver counterexample on the real code.

The entry values of the function's parameters are read from the model (inputs only:
intermediate values of a linearised model may be inconsistent), a Go test is generated
that builds them with the alias pattern of the partition, calls the real function and
evaluates every `ensures` clause of its contract with math/big.  The test is injected
with `go test -overlay` -- nothing is written to /repo.
"""
import json
import os
import re
import shutil
import subprocess
import tempfile
import threading

from . import ssa as S
from . import smt
from .symex import Ptr, SliceV, Comp
from .terms import Poly

FIELD = "filippo.io/edwards25519/field"

HELPERS = r'''
func bu(x uint64) *big.Int { return new(big.Int).SetUint64(x) }
func bs(x int64) *big.Int  { return big.NewInt(x) }
func lit(s string) *big.Int { z, _ := new(big.Int).SetString(s, 10); return z }
func add(a, b *big.Int) *big.Int { return new(big.Int).Add(a, b) }
func sub(a, b *big.Int) *big.Int { return new(big.Int).Sub(a, b) }
func mul(a, b *big.Int) *big.Int { return new(big.Int).Mul(a, b) }
func neg(a *big.Int) *big.Int { return new(big.Int).Neg(a) }
func fdiv(a, b *big.Int) *big.Int { q, m := new(big.Int).DivMod(a, b, new(big.Int)); _ = m; return q }
func fmod(a, b *big.Int) *big.Int { return new(big.Int).Mod(a, b) }
func pow(a *big.Int, n int) *big.Int { return new(big.Int).Exp(a, big.NewInt(int64(n)), nil) }
func shl(a *big.Int, n int) *big.Int { return new(big.Int).Lsh(a, uint(n)) }
func shr(a *big.Int, n int) *big.Int { return new(big.Int).Rsh(a, uint(n)) }
func band(a, b *big.Int) *big.Int { return new(big.Int).And(a, b) }
func bor(a, b *big.Int) *big.Int { return new(big.Int).Or(a, b) }
func cmp(a, b *big.Int) int { return a.Cmp(b) }
func cong(a, b, m *big.Int) bool { return new(big.Int).Mod(new(big.Int).Sub(a, b), m).Sign() == 0 }
func imp(a, b bool) bool { return !a || b }
func ite(c bool, a, b *big.Int) *big.Int { if c { return a }; return b }
func b2i(c bool) *big.Int { if c { return big.NewInt(1) }; return big.NewInt(0) }
func leb(b []byte, n int) *big.Int {
	z := new(big.Int)
	for i := n - 1; i >= 0; i-- { z.Lsh(z, 8); z.Or(z, big.NewInt(int64(b[i]))) }
	return z
}
func lew(b []uint64, n int) *big.Int {
	z := new(big.Int)
	for i := n - 1; i >= 0; i-- { z.Lsh(z, 64); z.Or(z, new(big.Int).SetUint64(b[i])) }
	return z
}
func report(clause string, ok bool) { fmt.Printf("GOVC-REPLAY {\"clause\": %q, \"ok\": %v}\n", clause, ok) }
func reportPre(clause string, ok bool) { fmt.Printf("GOVC-PRE {\"clause\": %q, \"ok\": %v}\n", clause, ok) }
'''


class GoGen:
    """translate contract ASTs to Go source over math/big"""

    def __init__(self, prog, contracts, env, assigned, localpkg):
        self.prog = prog
        self.C = contracts
        self.env = env          # name -> (kind, goexpr, gotype, oldexpr)
        self.assigned = assigned
        self.bound = {}
        self.localpkg = localpkg
        self.notes = []

    def int_of(self, expr, t):
        ii = self.prog.int_info(t)
        if ii is None:
            raise ValueError("not an integer type %s" % t)
        if ii[1]:
            return "bs(int64(%s))" % expr
        return "bu(uint64(%s))" % expr

    def tr(self, ast, old=False):
        """returns (kind, goexpr, type) with kind in int / bool / val / ptr / slice / num"""
        k = ast[0]
        if k == "num":
            return ("num", ast[1], None)
        if k == "bool":
            return ("bool", "true" if ast[1] else "false", None)
        if k == "old":
            return self.tr(ast[1], True)
        if k == "id":
            n = ast[1]
            if n in self.bound:
                return self.bound[n]
            if n in self.env:
                kind, cur, t, oldx = self.env[n]
                o = old or (self.assigned is not None and n not in self.assigned and not n.startswith("result"))
                if kind == "ptr":
                    return ("ptrval", (cur, oldx if o else "(*%s)" % cur), t)
                if kind == "slice":
                    return ("slice", oldx if (o and oldx) else cur, t)
                if kind == "int":
                    return ("int", self.int_of(cur, t), t)
                if kind == "val":
                    return ("val", cur, t)
                if kind == "iface":
                    return ("iface", cur, t)
            if n in self.C.consts:
                return self.tr(self.C.consts[n], old)
            raise ValueError("identifier %s" % n)
        if k == "field":
            b = self.tr(ast[1], old)
            return self.field(b, ast[2])
        if k == "index":
            b = self.tr(ast[1], old)
            i = self.num(self.tr(ast[2], old))
            return self.index(b, i)
        if k == "deref":
            return self.tr(ast[1], old)
        if k == "un":
            x = self.tr(ast[2], old)
            if ast[1] == "!":
                return ("bool", "!(%s)" % x[1], None)
            if x[0] == "num":
                return ("num", -x[1], None)
            return ("int", "neg(%s)" % self.big(x), None)
        if k == "bin":
            return self.binary(ast, old)
        if k == "call":
            return self.call(ast[1], ast[2], old)
        if k == "sum":
            _, var, lo, hi, body = ast
            lo = self.num(self.tr(lo, old))
            hi = self.num(self.tr(hi, old))
            acc = "bs(0)"
            saved = self.bound.get(var)
            for i in range(lo, hi):
                self.bound[var] = ("num", i, None)
                acc = "add(%s, %s)" % (acc, self.big(self.tr(body, old)))
            if saved is None:
                self.bound.pop(var, None)
            else:
                self.bound[var] = saved
            return ("int", acc, None)
        if k in ("forall", "exists"):
            _, var, lo, hi, body = ast
            lo = self.num(self.tr(lo, old))
            hi = self.num(self.tr(hi, old))
            parts = []
            saved = self.bound.get(var)
            for i in range(lo, hi):
                self.bound[var] = ("num", i, None)
                parts.append("(%s)" % self.tr(body, old)[1])
            if saved is None:
                self.bound.pop(var, None)
            else:
                self.bound[var] = saved
            if not parts:
                return ("bool", "true" if k == "forall" else "false", None)
            return ("bool", (" && " if k == "forall" else " || ").join(parts), None)
        raise ValueError("cannot translate %r" % (ast,))

    def num(self, x):
        if x[0] != "num":
            raise ValueError("constant expected")
        return x[1]

    def big(self, x):
        if x[0] == "num":
            n = x[1]
            if -(1 << 62) < n < (1 << 62):
                return "bs(%d)" % n
            return 'lit("%d")' % n
        if x[0] == "int":
            return x[1]
        if x[0] == "val" and self.prog.int_info(x[2]):
            return self.int_of(x[1], x[2])
        raise ValueError("integer expected, got %r" % (x,))

    def valexpr(self, b):
        if b[0] == "ptrval":
            return b[1][1], b[2]
        if b[0] == "val":
            return b[1], b[2]
        raise ValueError("value expected: %r" % (b,))

    def field(self, b, name):
        e, t = self.valexpr(b)
        if self.prog.kind(t) == "ptr":
            e, t = "(*%s)" % e, self.prog.elem(t)
        if name.isdigit():
            return self.index(("val", e, t), int(name))
        fi = self.prog.field_index(t, name)
        ft = self.prog.fields(t)[fi]["type"]
        ne = "%s.%s" % (e, name)
        if self.prog.int_info(ft):
            return ("int", self.int_of(ne, ft), ft)
        return ("val", ne, ft)

    def index(self, b, i):
        if b[0] == "slice":
            et = self.prog.elem(b[2])
            ne = "%s[%d]" % (b[1], i)
        else:
            e, t = self.valexpr(b)
            if self.prog.kind(t) == "ptr":
                e, t = "(*%s)" % e, self.prog.elem(t)
            et = self.prog.elem(t)
            ne = "%s[%d]" % (e, i)
        if self.prog.int_info(et):
            return ("int", self.int_of(ne, et), et)
        return ("val", ne, et)

    def binary(self, ast, old):
        _, op, a, b = ast
        if op in ("&&", "||", "==>", "<==>"):
            x, y = self.tr(a, old), self.tr(b, old)
            if op == "==>":
                # lazily, like Go's ||: the consequent may index a slice whose length the antecedent guards
                return ("bool", "(!(%s) || (%s))" % (x[1], y[1]), None)
            if op == "<==>":
                return ("bool", "((%s) == (%s))" % (x[1], y[1]), None)
            return ("bool", "((%s) %s (%s))" % (x[1], op, y[1]), None)
        x, y = self.tr(a, old), self.tr(b, old)
        if op in ("==", "!="):
            if x[0] in ("ptrval",) and y[0] in ("ptrval",):
                return ("bool", "(%s %s %s)" % (x[1][0], op, y[1][0]), None)
            if x[0] == "slice" and y[0] == "slice":
                return ("bool", "(%s(len(%s) == len(%s) && (len(%s) == 0 || &%s[0] == &%s[0])))" % ("" if op == "==" else "!", x[1], y[1], x[1], x[1], y[1]), None)
            if x[0] == "bool" or y[0] == "bool":
                return ("bool", "((%s) %s (%s))" % (x[1], op, y[1]), None)
            return ("bool", "(cmp(%s, %s) %s 0)" % (self.big(x), self.big(y), op), None)
        if op in ("<", "<=", ">", ">="):
            if x[0] == "num" and y[0] == "num":
                return ("bool", "true" if eval("%d %s %d" % (x[1], op, y[1])) else "false", None)
            return ("bool", "(cmp(%s, %s) %s 0)" % (self.big(x), self.big(y), op), None)
        if x[0] == "num" and y[0] == "num":
            n, m = x[1], y[1]
            r = {"+": n + m, "-": n - m, "*": n * m, "^": n ** m if op == "^" else 0, "/": n // m if m and op == "/" else 0, "%": n % m if m and op == "%" else 0,
                 "<<": n << m if op == "<<" else 0, ">>": n >> m if op == ">>" else 0, "&": n & m, "|": n | m}[op]
            return ("num", r, None)
        f = {"+": "add", "-": "sub", "*": "mul", "/": "fdiv", "%": "fmod", "&": "band", "|": "bor"}.get(op)
        if f:
            return ("int", "%s(%s, %s)" % (f, self.big(x), self.big(y)), None)
        if op == "^":
            return ("int", "pow(%s, %d)" % (self.big(x), self.num(y)), None)
        if op == "<<":
            return ("int", "shl(%s, %d)" % (self.big(x), self.num(y)), None)
        if op == ">>":
            return ("int", "shr(%s, %d)" % (self.big(x), self.num(y)), None)
        raise ValueError("operator %s" % op)

    def call(self, name, args, old):
        if name in self.C.defines:
            params, body = self.C.defines[name]
            vals = [self.tr(a, old) for a in args]
            saved = {p: self.bound.get(p) for p in params}
            for p, v in zip(params, vals):
                self.bound[p] = v
            try:
                return self.tr(body, old)
            finally:
                for p, v in saved.items():
                    if v is None:
                        self.bound.pop(p, None)
                    else:
                        self.bound[p] = v
        if name == "cong":
            a, b, m = [self.big(self.tr(x, old)) for x in args]
            return ("bool", "cong(%s, %s, %s)" % (a, b, m), None)
        if name == "ite":
            c = self.tr(args[0], old)[1]
            a, b = self.tr(args[1], old), self.tr(args[2], old)
            return ("int", "ite(%s, %s, %s)" % (c, self.big(a), self.big(b)), None)
        if name == "len":
            x = self.tr(args[0], old)
            if x[0] == "slice":
                return ("int", "bs(int64(len(%s)))" % x[1], None)
            e, t = self.valexpr(x)
            return ("num", self.prog.array_len(t), None)
        if name == "le":
            x = self.tr(args[0], old)
            n = self.num(self.tr(args[1], old))
            w = self.num(self.tr(args[2], old)) if len(args) > 2 else 8
            if x[0] == "slice":
                e = x[1]
            else:
                e, t = self.valexpr(x)
                if self.prog.kind(t) == "ptr":
                    e = "(*%s)" % e
                e = "%s[:]" % e
            return ("int", "%s(%s, %d)" % ("leb" if w == 8 else "lew", e, n), None)
        if name == "isnil":
            x = self.tr(args[0], old)
            if x[0] == "ptrval":
                return ("bool", "(%s == nil)" % x[1][0], None)
            return ("bool", "(%s == nil)" % x[1], None)
        if name == "unchanged":
            parts = []
            for a in args:
                cur = self.tr(a, False)
                oldv = self.tr(a, True)
                parts.append("reflect.DeepEqual(%s, %s)" % (self.anyexpr(cur), self.anyexpr(oldv)))
            return ("bool", " && ".join(parts) or "true", None)
        if name == "fresh":
            self.notes.append("fresh(...) is not observable in a replay; taken as true")
            return ("bool", "true", None)
        if name == "sliceof":
            x = self.tr(args[0], old)
            lo, hi = self.num(self.tr(args[1], old)), self.num(self.tr(args[2], old))
            e, t = self.valexpr(x)
            if self.prog.kind(t) == "ptr":
                e = "(*%s)" % e
            return ("slice", "%s[%d:%d]" % (e, lo, hi), None)
        if name == "bit":
            x = self.big(self.tr(args[0], old))
            k = self.num(self.tr(args[1], old))
            return ("int", "fmod(shr(%s, %d), bs(2))" % (x, k), None)
        if name == "bool2int":
            return ("int", "b2i(%s)" % self.tr(args[0], old)[1], None)
        raise ValueError("spec function %s has no replay translation" % name)

    def anyexpr(self, x):
        if x[0] == "ptrval":
            return x[1][1]
        return x[1]


def go_type(prog, t, localpkg):
    s = t
    s = s.replace(localpkg + ".", "")
    s = s.replace("filippo.io/edwards25519/field.", "field.").replace("filippo.io/edwards25519.", "edwards25519.")
    return s


def go_literal(prog, t, val, localpkg):
    """Go expression for a concrete value (nested python lists / ints) of type t"""
    k = prog.kind(t)
    ii = prog.int_info(t)
    if ii:
        return "%s(%d)" % (go_type(prog, t, localpkg), val) if val >= 0 or ii[1] else str(val)
    if prog.is_bool(t):
        return "true" if val else "false"
    if k == "struct":
        parts = []
        for f, v in zip(prog.fields(t), val):
            if f["name"] == "_":
                continue
            parts.append("%s: %s" % (f["name"], go_literal(prog, f["type"], v, localpkg)))
        return "%s{%s}" % (go_type(prog, t, localpkg), ", ".join(parts))
    if k == "array":
        et = prog.elem(t)
        return "%s{%s}" % (go_type(prog, t, localpkg), ", ".join(go_literal(prog, et, v, localpkg) for v in val))
    raise ValueError("literal of %s" % t)


def model_value(run, model, v, t):
    """concrete python value of an entry-state executor value under the model"""
    prog = run.prog
    ii = prog.int_info(t)
    if ii:
        if isinstance(v, Poly):
            tot = 0
            for m, c in v.t.items():
                p = c
                for a in m:
                    p *= int(model.get(a, 0))
                tot += p
            n = tot
        elif isinstance(v, tuple) and v[0] == "bvvar":
            n = int(model.get(v[1], 0))
        elif isinstance(v, tuple) and v[0] == "bvconst":
            n = v[1]
        else:
            n = 0
        w, sg = ii
        n &= (1 << w) - 1
        if sg and n >> (w - 1):
            n -= 1 << w
        return n
    if prog.is_bool(t):
        return bool(model.get(v[1], False)) if isinstance(v, tuple) else bool(v)
    raise ValueError("model value of %s" % t)


def obj_value(run, model, oid, t, path=()):
    prog = run.prog
    k = prog.kind(t)
    if k == "struct":
        return [obj_value(run, model, oid, f["type"], path + (i,)) for i, f in enumerate(prog.fields(t))]
    if k == "array":
        return [obj_value(run, model, oid, prog.elem(t), path + (i,)) for i in range(prog.array_len(t))]
    if k in ("func", "ptr", "interface", "slice"):
        return None
    v = (getattr(run, '_replay_old', None) or run.old_mem).get((oid, path))
    return model_value(run, model, v, t)


_build_lock = threading.Lock()


def replay_obligation(repo, ob, rep):
    run = getattr(ob, "run", None)
    if run is None:
        return False
    if not ob.result or ob.result.status != "sat" or not ob.result.model:
        return False
    if ob.mode in ("ring", "group"):
        return False    # the model is a truth assignment of polynomial equalities, not concrete elements (see sampled.py)
    prog = run.prog
    f = run.f
    c = run.c
    model = ob.result.model
    # the failing query was sliced to the goal's cone of influence, so its model need not satisfy the rest of the
    # path (preconditions, lengths).  Ask once more with every hypothesis for a complete model.
    try:
        from .verifier import domain_for
        dom = domain_for(ob.mode, getattr(run.dom, "specw", 520))
        text = dom.emit(ob.decl, ob.bounds, list(ob.hyps), ob.goal, slice_hyps=False)
        r = smt.run_portfolio(text, timeout=20, want_model=True, need=1, use_cache=False)
        if r.status == "sat" and r.model:
            model = r.model
            rep["replay_model"] = "complete model of the unsliced path (%s)" % r.solver
        else:
            rep["replay_model"] = "model of the sliced query only (unsliced query: %s)" % r.status
    except Exception as e:
        rep["replay_model"] = "model of the sliced query only (%s: %s)" % (type(e).__name__, e)
    with _build_lock:
        run._replay_old = getattr(ob, 'old_mem', None)
        built = _build_test(run, ob, rep, model)
    if built is None:
        return False
    text, inputs, untranslated, pkgdir = built
    return _execute(repo, ob, rep, text, inputs, untranslated, pkgdir)


def _build_test(run, ob, rep, model):
    prog = run.prog
    f = run.f
    c = run.c
    pkg = f.get("pkg", "")
    localpkg = pkg
    pkgdir = "field" if pkg == FIELD else "."
    pkgname = "field" if pkg == FIELD else "edwards25519"
    lines = []
    env = {}
    setup = []
    inputs = {}
    objvar = {}
    for i, p in enumerate(f["params"]):
        nm = c.params[i] if i < len(c.params) else p["name"]
        gv = "p_" + re.sub(r"\W", "_", nm)
        t = p["type"]
        k = prog.kind(t)
        v = run.param_vals[p["name"]]
        if k == "ptr":
            if v.obj in objvar:
                setup.append("%s := %s" % (gv, objvar[v.obj]))
                env[nm] = ("ptr", gv, prog.elem(t), "old_" + objvar[v.obj])
            else:
                val = obj_value(run, model, v.obj, prog.elem(t))
                inputs[nm] = val
                setup.append("%s := &%s" % (gv, go_literal(prog, prog.elem(t), val, localpkg)))
                objvar[v.obj] = gv
                env[nm] = ("ptr", gv, prog.elem(t), "old_" + gv)
        elif k == "slice":
            ln = model_value(run, model, v.len, "int")
            if ln < 0 or ln > 4096:
                rep["replay"] = "model slice length %d is out of replay range" % ln
                return None
            et = prog.elem(t)
            cp = model_value(run, model, v.cap, "int")
            cp = max(ln, min(cp, 8192))
            cells = []
            for j in range(cp):
                cv = (getattr(run, '_replay_old', None) or run.old_mem).get((v.obj, (j,)))
                cells.append(model_value(run, model, cv, et) if cv is not None else 0)
            inputs[nm] = cells[:ln] if cp == ln else {"len": ln, "cap": cp, "backing": cells}
            setup.append("back_%s := %s{%s}" % (gv, go_type(prog, t, localpkg), ", ".join(str(x) for x in cells)))
            setup.append("%s := back_%s[:%d]" % (gv, gv, ln))
            setup.append("oldback_%s := append(%s{}, back_%s...)" % (gv, go_type(prog, t, localpkg), gv))
            setup.append("old_%s := oldback_%s[:%d]" % (gv, gv, ln))
            setup.append("_ = old_%s" % gv)
            env[nm] = ("slice", gv, t, "old_" + gv)
        elif prog.int_info(t):
            n = model_value(run, model, v, t)
            inputs[nm] = n
            setup.append("%s := %s(%d)" % (gv, go_type(prog, t, localpkg), n))
            env[nm] = ("int", gv, t, None)
        elif k == "struct":
            val = struct_value(run, model, v, t)
            inputs[nm] = val
            setup.append("%s := %s" % (gv, go_literal(prog, t, val, localpkg)))
            env[nm] = ("val", gv, t, None)
        else:
            rep["replay"] = "parameter %s of type %s is not replayable" % (nm, t)
            return None
    for o, gv in objvar.items():
        setup.append("old_%s := *%s" % (gv, gv))
    # call
    args = ["p_" + re.sub(r"\W", "_", (c.params[i] if i < len(c.params) else p["name"])) for i, p in enumerate(f["params"])]
    short = f["short"]
    nres = len(f["results"])
    resvars = ["r%d" % i for i in range(nres)]
    if f["recv"]:
        call = "%s.%s(%s)" % (args[0], short, ", ".join(args[1:]))
    else:
        call = "%s(%s)" % (short, ", ".join(args))
    for i, rt in enumerate(f["results"]):
        k = prog.kind(rt)
        kind = "ptr" if k == "ptr" else "slice" if k == "slice" else "iface" if k == "interface" else "int" if prog.int_info(rt) else "val"
        ent = (kind, resvars[i], prog.elem(rt) if kind == "ptr" else rt, None)
        env["result%d" % i] = ent
        if nres == 1:
            env["result"] = ent
    assigned = set()
    for a in (c.assigns or []):
        n = a
        while n[0] in ("deref", "field", "index", "slice"):
            n = n[1]
        if n[0] == "id":
            assigned.add(n[1])
    gen = GoGen(prog, run.V.contracts, env, assigned, localpkg)
    checks = []
    untranslated = []
    for i, (lab, ast, txt) in enumerate(c.ensures):
        try:
            kind, expr, _ = gen.tr(ast)
            checks.append('report(%s, %s)' % (json.dumps("ensures [%s] %s" % (lab or i + 1, txt)), expr))
        except Exception as e:
            untranslated.append("%s: %s" % (txt, e))
    prechecks = []
    for i, (lab, ast, txt) in enumerate(c.requires):
        try:
            kind, expr, _ = gen.tr(ast)
            prechecks.append('reportPre(%s, %s)' % (json.dumps("requires [%s] %s" % (lab or i + 1, txt)), expr))
        except Exception as e:
            untranslated.append("requires %s: %s" % (txt, e))
    # frame: parameters' pointees outside assigns
    for i, p in enumerate(f["params"]):
        nm = c.params[i] if i < len(c.params) else p["name"]
        kind = env[nm][0]
        if nm in assigned:
            continue
        if kind == "ptr" and not any(env[a][1] == env[nm][1] for a in assigned if a in env and env[a][0] == "ptr"):
            checks.append('report(%s, reflect.DeepEqual(*%s, %s))' % (json.dumps("frame: *%s unchanged" % nm), env[nm][1], env[nm][3]))
        if kind == "slice":
            checks.append('report(%s, reflect.DeepEqual(back_%s, oldback_%s))' % (json.dumps("frame: backing array of %s unchanged" % nm), env[nm][1], env[nm][1]))
    imports = ['"fmt"', '"math/big"', '"reflect"', '"testing"']
    src = ["package %s" % pkgname, "", "import (", "\n".join("\t" + x for x in imports), ")", "", "var _ = reflect.DeepEqual", "var _ = big.NewInt", HELPERS, "",
           "func TestGovcReplay(t *testing.T) {",
           "\tdefer func() { if r := recover(); r != nil { fmt.Printf(\"GOVC-REPLAY {\\\"clause\\\": \\\"panic: %v\\\", \\\"ok\\\": false}\\n\", r) } }()"]
    src += ["\t" + s for s in setup]
    src += ["\t" + s for s in prechecks]
    if nres:
        src.append("\t%s := %s" % (", ".join(resvars), call))
        src.append("\t" + "; ".join("_ = %s" % r for r in resvars))
    else:
        src.append("\t" + call)
    src += ["\t" + s for s in checks]
    src.append("}")
    text = "\n".join(src) + "\n"
    return text, inputs, untranslated, pkgdir


def _execute(repo, ob, rep, text, inputs, untranslated, pkgdir):
    tmp = tempfile.mkdtemp(prefix="govc_replay_")
    try:
        tf = os.path.join(tmp, "govc_replay_test.go")
        open(tf, "w").write(text)
        target = os.path.join(repo, pkgdir, "govc_replay_test.go")
        ov = os.path.join(tmp, "ov.json")
        json.dump({"Replace": {target: tf}}, open(ov, "w"))
        tags = []
        cfg = getattr(ob, "config", "default")
        if cfg == "purego":
            tags = ["-tags", "purego"]
        cmd = ["go", "test", "-overlay", ov, "-vet=off", "-count=1", "-timeout", "60s", "-v", "-run", "^TestGovcReplay$"] + tags + ["./" + pkgdir]
        r = subprocess.run(cmd, cwd=repo, capture_output=True, env=S.GOENV, timeout=180)
        out = r.stdout.decode(errors="replace") + r.stderr.decode(errors="replace")
    finally:
        shutil.rmtree(tmp, ignore_errors=True)
    results = []
    for m in re.finditer(r"^GOVC-REPLAY (\{.*\})$", out, re.M):
        try:
            results.append(json.loads(m.group(1)))
        except Exception:
            pass
    rep["replay_inputs"] = inputs
    rep["replay_partition"] = ob.part
    rep["replay_clauses"] = results
    rep["replay_untranslated"] = untranslated
    rep["replay_test"] = text
    rep["replay_cmd"] = "go test -overlay <ov.json: %s/govc_replay_test.go> -vet=off -run ^TestGovcReplay$ ./%s" % (pkgdir, pkgdir)
    prebad = []
    for m in re.finditer(r"^GOVC-PRE (\{.*\})$", out, re.M):
        try:
            d = json.loads(m.group(1))
            if not d.get("ok"):
                prebad.append(d["clause"])
        except Exception:
            pass
    if prebad:
        rep["replay"] = "inconclusive: the model's inputs violate the precondition (%s); nothing is claimed about the real code" % "; ".join(prebad)
        return False
    failed = [x for x in results if not x.get("ok")]
    if failed:
        rep["replay"] = "REPRODUCED on the real code: " + "; ".join(x["clause"] for x in failed)
        return True
    if not results:
        rep["replay"] = "replay test did not run: " + out[-1500:]
        return False
    rep["replay"] = "the model's inputs satisfy every translated postcondition on the real code (the failed obligation is internal, or the linearised model is spurious)"
    return False


def struct_value(run, model, v, t):
    prog = run.prog
    k = prog.kind(t)
    if k == "struct":
        return [struct_value(run, model, e, f["type"]) for e, f in zip(v.elems, prog.fields(t))]
    if k == "array":
        return [struct_value(run, model, e, prog.elem(t)) for e in v.elems]
    return model_value(run, model, v, t)
