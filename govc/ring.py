"""Tier F: field.Element is an opaque leaf whose value is a polynomial over GF(p)
(class RPoly, integer coefficients, monomials with big exponents), machine integers
stay in the LIA domain.  Facts `poly == 0 in GF(p)` are boolean atoms ('req', RPoly);
the solver sees them as propositional variables plus machine-checked lemmas:
  * K1  pure polynomial identities are decided by normalisation (the two sides are
        literally the same normal form) and re-checked by the SMT solvers over Int;
  * K2  ideal-membership lemmas  h1=0 & ... & hn=0 => g=0  carry explicit cofactors
        (found by an untrusted search, the identity  c*g = sum q_i*h_i  is an obligation);
  * M1  no zero divisors:  a*b=0 => a=0 or b=0  (instances for factored atoms).
"""
from fractions import Fraction
from math import gcd
from functools import reduce as _reduce

from .terms import Poly, mk_and, mk_or, mk_not, mk_implies, smt_int
from .domains import LiaDomain, Unsupported, formula_atoms, slice_context

P25519 = 2 ** 255 - 19


class _Mod:
    """the prime of the ring-mode run in progress (GF(p) for field elements, Z/l for scalars)"""
    value = P25519


def MOD():
    return _Mod.value


def set_mod(m):
    _Mod.value = int(m)


class RPoly:
    """polynomial over Z; monomial = tuple of (atom, exponent) sorted by atom"""
    __slots__ = ("t", "_h")

    def __init__(self, t=None):
        self.t = {k: v for k, v in (t or {}).items() if v != 0}
        self._h = None

    @staticmethod
    def const(n):
        return RPoly({(): int(n)})

    @staticmethod
    def atom(a):
        return RPoly({((a, 1),): 1})

    def is_zero(self):
        return not self.t

    def is_const(self):
        return all(k == () for k in self.t)

    def const_val(self):
        return self.t.get((), 0)

    def atoms(self):
        s = set()
        for m in self.t:
            for a, _ in m:
                s.add(a)
        return s

    def __add__(self, o):
        o = to_rpoly(o)
        r = dict(self.t)
        for k, v in o.t.items():
            r[k] = r.get(k, 0) + v
        return RPoly(r)

    __radd__ = __add__

    def __neg__(self):
        return RPoly({k: -v for k, v in self.t.items()})

    def __sub__(self, o):
        return self + (-to_rpoly(o))

    def __rsub__(self, o):
        return to_rpoly(o) - self

    @staticmethod
    def mulmono(m1, m2):
        d = dict(m1)
        for a, e in m2:
            d[a] = d.get(a, 0) + e
        return tuple(sorted(d.items()))

    def __mul__(self, o):
        o = to_rpoly(o)
        r = {}
        for k1, v1 in self.t.items():
            for k2, v2 in o.t.items():
                k = RPoly.mulmono(k1, k2)
                r[k] = r.get(k, 0) + v1 * v2
        return RPoly(r)

    __rmul__ = __mul__

    def pow(self, n):
        if n < 0:
            raise ValueError("negative power")
        if len(self.t) == 1:
            (m, c), = self.t.items()
            if c in (1, -1) or n < 64:
                return RPoly({tuple((a, e * n) for a, e in m): c ** n if abs(c) != 1 else (1 if (c == 1 or n % 2 == 0) else -1)})
        if n > 64:
            raise Unsupported("large power of a non-monomial")
        r = RPoly.const(1)
        for _ in range(n):
            r = r * self
        return r

    def __eq__(self, o):
        return isinstance(o, RPoly) and self.t == o.t

    def __hash__(self):
        if self._h is None:
            self._h = hash(frozenset(self.t.items()))
        return self._h

    def subst(self, env):
        r = RPoly()
        for m, c in self.t.items():
            p = RPoly.const(c)
            for a, e in m:
                p = p * (env[a].pow(e) if a in env else RPoly({((a, e),): 1}))
            r = r + p
        return r

    def content(self):
        g = 0
        for c in self.t.values():
            g = gcd(g, abs(c))
        return g

    def canon(self):
        """primitive part with a fixed sign; valid for `== 0 in GF(p)` when p does not divide the content"""
        if not self.t:
            return self
        g = self.content()
        if g % MOD() == 0:
            return self
        lead = min(self.t.items(), key=lambda kv: (-(sum(e for _, e in kv[0])), kv[0]))
        sgn = -1 if lead[1] < 0 else 1
        return RPoly({k: (v // g) * sgn for k, v in self.t.items()})

    def key(self):
        return repr(self)

    def __repr__(self):
        if not self.t:
            return "0"
        parts = []
        for m, c in sorted(self.t.items(), key=lambda kv: (sum(e for _, e in kv[0]), kv[0])):
            ms = "*".join(a if e == 1 else "%s^%d" % (a, e) for a, e in m)
            if not ms:
                parts.append(str(c))
            elif c == 1:
                parts.append(ms)
            elif c == -1:
                parts.append("-" + ms)
            else:
                parts.append("%d*%s" % (c, ms))
        return " + ".join(parts).replace("+ -", "- ")


def to_rpoly(x):
    if isinstance(x, RPoly):
        return x
    if isinstance(x, int) and not isinstance(x, bool):
        return RPoly.const(x)
    if isinstance(x, Poly) and x.is_const():
        return RPoly.const(x.const_val())
    raise TypeError("not a ring value: %r" % (x,))


class RVal:
    """abstract value of a field.Element cell: its value in GF(p), representation flags, and
    the identity of its limb vector (raw) for limb-wise comparisons"""
    __slots__ = ("poly", "inv", "raw")
    counter = [0]

    def __init__(self, poly, inv=False, raw=None):
        self.poly = poly
        self.inv = inv
        if raw is None:
            RVal.counter[0] += 1
            raw = "e%d" % RVal.counter[0]
        self.raw = raw

    def __eq__(self, o):
        return isinstance(o, RVal) and self.raw == o.raw and self.poly == o.poly and self.inv == o.inv

    def __hash__(self):
        return hash((self.raw, self.poly))

    def __repr__(self):
        return "RVal(%s%s)" % (self.poly, "" if self.inv else ",noinv")


class RInt:
    """ring-valued specification expression (an element of GF(p) given by a polynomial)"""
    __slots__ = ("poly",)

    def __init__(self, poly):
        self.poly = poly


class RCanon:
    """`x mod P` of a ring value: the canonical integer representative in [0,P)"""
    __slots__ = ("poly",)

    def __init__(self, poly):
        self.poly = poly


def req(p):
    """formula  p == 0 in GF(p)"""
    p = to_rpoly(p)
    if p.is_const():
        return p.const_val() % MOD() == 0
    return ("req", p.canon())


def smt_rpoly(p):
    """RPoly as an SMT-LIB Int term (for K1/K2 identity checks); big exponents are not allowed here"""
    if not p.t:
        return "0"
    parts = []
    for m, c in p.t.items():
        fs = []
        for a, e in m:
            if e > 40:
                raise Unsupported("exponent too large for an SMT identity check")
            fs.extend(["|%s|" % a] * e)
        if c != 1 or not fs:
            fs.insert(0, smt_int(c))
        parts.append(fs[0] if len(fs) == 1 else "(* %s)" % " ".join(fs))
    return parts[0] if len(parts) == 1 else "(+ %s)" % " ".join(parts)


def identity_query(lhs, rhs):
    """SMT text asking whether two polynomials differ somewhere over Z (unsat = identity in every commutative ring)"""
    atoms = sorted(lhs.atoms() | rhs.atoms())
    lines = ["(set-logic QF_NIA)"]
    for a in atoms:
        lines.append("(declare-const |%s| Int)" % a)
    lines.append("(assert (not (= %s %s)))" % (smt_rpoly(lhs), smt_rpoly(rhs)))
    lines.append("(check-sat)")
    return "\n".join(lines)


# ------------------------------------------------------------------ ideal membership search (untrusted)

def to_sympy(p, syms):
    import sympy
    e = sympy.Integer(0)
    for m, c in p.t.items():
        t = sympy.Integer(c)
        for a, ex in m:
            t = t * syms[a] ** ex
        e += t
    return e


def from_sympy(e, syms_inv):
    import sympy
    e = sympy.Poly(sympy.expand(e), *list(syms_inv.keys())) if syms_inv else None
    if e is None:
        return RPoly.const(int(sympy.expand(e)))
    r = {}
    gens = e.gens
    for mon, c in e.terms():
        cf = sympy.Rational(c)
        if cf.q != 1:
            raise ValueError("non-integer coefficient")
        m = tuple(sorted((syms_inv[g], int(ex)) for g, ex in zip(gens, mon) if ex))
        r[m] = int(cf.p)
    return RPoly(r)


_pool = None


def pool():
    global _pool
    if _pool is None:
        import concurrent.futures
        import multiprocessing
        _pool = concurrent.futures.ProcessPoolExecutor(max_workers=10, mp_context=multiprocessing.get_context("fork"))
    return _pool


def kill_pool():
    """terminate the worker processes (they inherit stdout; a caller waiting for EOF would hang otherwise)"""
    global _pool
    if _pool is None:
        return
    try:
        procs = list(getattr(_pool, "_processes", {}).values())
        for p_ in procs:
            try:
                p_.kill()
            except Exception:
                pass
    except Exception:
        pass
    _pool = None


def _slack():
    from .smt import slack
    return slack()


def find_cofactors_multi(goals, hyps, budget=6.0):
    """For each goal search c != 0 (mod p) and integer-coefficient q_i with  c*goal = sum q_i*hyps_i.
    Untrusted (tracked Buchberger in gbcert.py, run in a worker process): the caller re-checks every
    identity.  Returns a list of (c, [q_i]) or None."""
    from .gbcert import membership_multi
    if not hyps or not goals:
        return [None] * len(goals)
    if any(e > 60 for p in list(goals) + list(hyps) for m in p.t for _, e in m):
        return [None] * len(goals)
    atoms = sorted(set().union(*[g.atoms() for g in goals], *[h.atoms() for h in hyps]))
    idx = {a: i for i, a in enumerate(atoms)}
    names = ["x%d" % i for i in range(len(atoms))] or ["x0"]

    def conv(p):
        d = {}
        for m, c in p.t.items():
            e = [0] * len(names)
            for a, ex in m:
                e[idx[a]] = ex
            d[tuple(e)] = c
        return d
    try:
        fut = pool().submit(membership_multi, [conv(g) for g in goals], [conv(h) for h in hyps], names, budget)
        allres = fut.result(timeout=(budget * 3 + 10) * _slack())
    except Exception:
        return [None] * len(goals)
    out = []
    for res in allres:
        if res is None:
            out.append(None)
            continue
        den = 1
        for q in res:
            for (_, dd) in q.values():
                den = den * dd // gcd(den, dd)
        if den % MOD() == 0:
            out.append(None)
            continue
        qs = []
        for q in res:
            t = {}
            for e, (nn, dd) in q.items():
                m = tuple(sorted((atoms[i], ex) for i, ex in enumerate(e) if ex))
                t[m] = nn * (den // dd)
            qs.append(RPoly(t))
        out.append((den, qs))
    return out


def find_cofactors(goal, hyps, budget=6.0):
    return find_cofactors_multi([goal], hyps, budget)[0]


class RingDomain(LiaDomain):
    mode = "ring"

    def __init__(self):
        super().__init__()
        self.reqnames = {}

    # boolean-valued 0/1 integer helpers used by the executor for | and & on flags
    def binop(self, st, op, x, y, width, signed, site):
        if op in ("|", "&"):
            xl, xh = self.interval(st, x)
            yl, yh = self.interval(st, y)
            if xl is not None and yl is not None and xl >= 0 and yl >= 0 and xh <= 1 and yh <= 1:
                cx, cy = self.concrete(x), self.concrete(y)
                if cx is not None and cy is not None:
                    return Poly.const((cx | cy) if op == "|" else (cx & cy))
                r = self.fresh(st, "flag", width, signed, 0, 1)
                if op == "|":
                    st.assume(("<=", x, r))
                    st.assume(("<=", y, r))
                    st.assume(("<=", r, x + y))
                else:
                    st.assume(("<=", r, x))
                    st.assume(("<=", r, y))
                    st.assume(("<=", x + y - 1, r))
                return r
        return super().binop(st, op, x, y, width, signed, site)

    def emit(self, decl, bounds, hyps, goal, slice_hyps=True, lemmas=()):
        """QF_LIA + boolean atoms for ring equalities"""
        names = {}

        def rewrite(f):
            if isinstance(f, tuple) and f:
                if f[0] == "req":
                    k = f[1].key()
                    if k not in names:
                        names[k] = "req!%d" % len(names)
                    return ("bvar", names[k])
                if f[0] in ("and", "or", "not", "=>", "iff"):
                    return (f[0],) + tuple(rewrite(g) for g in f[1:])
            return f
        hyps2 = [rewrite(h) for h in list(hyps) + list(lemmas)]
        goal2 = rewrite(goal)
        d = dict(decl)
        for k, n in names.items():
            d[n] = "Bool"
        self.last_names = {n: k for k, n in names.items()}
        # no cone-of-influence slicing here: ring atoms are related by the theory, not by shared symbols
        text = LiaDomain.emit(self, d, bounds, hyps2, goal2, slice_hyps=False)
        legend = "\n".join("; %s  :=  [%s == 0 in GF(p)]" % (n, k) for k, n in sorted(names.items(), key=lambda kv: kv[1]))
        return legend + "\n" + text if legend else text


def req_atoms(f, pos=True, out=None):
    """collect ('req', poly) atoms of a formula"""
    if out is None:
        out = []
    if isinstance(f, tuple) and f:
        if f[0] == "req":
            out.append(f)
        elif f[0] in ("and", "or", "not", "=>", "iff"):
            for g in f[1:]:
                req_atoms(g, pos, out)
    return out
