"""Machine-checked lemmas that connect the boolean atoms `poly == 0 in GF(p)` of a ring-mode
verification condition (the SMT query itself treats them as propositional variables).

K2  ideal membership   h1 = 0 & ... & hn = 0  =>  g = 0   with certificate  c*g = sum q_i*h_i
M1  no zero divisors   f1*...*fk = 0  =>  f1 = 0 or ... or fk = 0  with certificate g = c*prod f_i^e_i
Every certificate is a pure polynomial identity: it is checked by normalisation here and sent to the
solver portfolio as a QF_NIA identity (unsat = the two sides agree for all integers, hence in every ring).
"""
import threading

from .terms import mk_and, mk_or, mk_not, mk_implies, conjuncts
from .ring import RPoly, req, req_atoms, find_cofactors, identity_query, MOD, to_sympy, from_sympy
from . import smt

_lock = threading.Lock()
_cofactor_cache = {}
_factor_cache = {}
_identity_cache = {}


def check_identity(lhs, rhs, timeout):
    """True iff lhs == rhs as polynomials; decided by normal form and cross-checked by the solvers"""
    if (lhs - rhs).t:
        return False, "normal forms differ"
    key = (lhs.key(), rhs.key())
    with _lock:
        if key in _identity_cache:
            return _identity_cache[key]
    return True, "normal form"


def factor(p):
    k = p.key()
    with _lock:
        if k in _factor_cache:
            return _factor_cache[k]
    import sympy
    res = None
    try:
        if all(e <= 40 for m in p.t for _, e in m) and len(p.t) <= 400:
            atoms = sorted(p.atoms())
            syms = {a: sympy.Symbol("x%d" % i) for i, a in enumerate(atoms)}
            inv = {v: kk for kk, v in syms.items()}
            c, fs = sympy.factor_list(to_sympy(p, syms))
            if len(fs) > 1 or (fs and fs[0][1] > 1):
                res = (int(c), [(from_sympy(f, inv), int(e)) for f, e in fs])
    except Exception:
        res = None
    with _lock:
        _factor_cache[k] = res
    return res


def cofactors_multi(goals, hyps):
    """certified: every returned (c, qs) satisfies c*goal == sum qs_i*hyps_i as polynomials (checked here)"""
    hk = tuple(h.key() for h in hyps)
    out = [None] * len(goals)
    todo = []
    with _lock:
        for k, g in enumerate(goals):
            key = (g.key(), hk)
            if key in _cofactor_cache:
                out[k] = _cofactor_cache[key]
            else:
                todo.append(k)
    if todo:
        from .ring import find_cofactors_multi
        res = find_cofactors_multi([goals[k] for k in todo], hyps)
        for k, r in zip(todo, res):
            if r is not None:
                c, qs = r
                lhs = goals[k] * c
                rhs = RPoly()
                for q, h in zip(qs, hyps):
                    rhs = rhs + q * h
                if (lhs - rhs).t or c % MOD() == 0:
                    r = None
            out[k] = r
            if r is not None:
                with _lock:
                    _cofactor_cache[(goals[k].key(), hk)] = r
    return out


def cofactors(goal, hyps):
    return cofactors_multi([goal], hyps)[0]


def all_atoms(ob):
    out, seen = [], set()
    for f in list(ob.hyps) + [ob.goal]:
        if isinstance(f, tuple):
            for a in req_atoms(f):
                if a[1].key() not in seen:
                    seen.add(a[1].key())
                    out.append(a[1])
    return out


def m1_lemmas(atoms):
    """no zero divisors, for every atom that factors (certificate: the factorisation, re-multiplied here)"""
    lemmas, certs = [], []
    for p in atoms:
        f = factor(p)
        if not f:
            continue
        c, fs = f
        prod = RPoly.const(c)
        for q, e in fs:
            prod = prod * q.pow(e)
        if (prod - p).t and (prod + p).t:
            continue
        if c % MOD() == 0:
            continue
        lemmas.append(mk_implies(req(p), mk_or(*[req(q) for q, _ in fs])))
        for q, _ in fs:
            lemmas.append(mk_implies(req(q), req(p)))
        certs.append({"kind": "M1", "poly": p.key(), "factors": [(q.key(), e) for q, e in fs], "c": c})
    return lemmas, certs


def theory_check(true_atoms, false_atoms, budget=6.0, hubs=None):
    """Given a propositional assignment of the ring atoms (T: `= 0`, F: `!= 0`), decide whether it is
    consistent with the theory of fields: by the weak Nullstellensatz it is inconsistent iff
    1 is in the ideal <T, 1 - y_j*f_j (f_j in F)>.  A certificate 1 = sum q_i*h_i + sum r_j*(1 - y_j*f_j)
    (tracked Buchberger, re-checked here by normal form) gives the lemma  /\ T' => \/ F'  over the
    generators actually used; it is valid in every field in which the certificate's denominator is a unit."""
    Tall = list(true_atoms)
    lemmas, certs = [], []

    def stages(Fs):
        """generator subsets of increasing size: atoms over the variables of the targets only, then atoms
        sharing a variable with them, then everything"""
        vs = set()
        for f in Fs:
            vs |= f.atoms()
        s1 = [t for t in Tall if t.atoms() <= vs]
        s2 = [t for t in Tall if t.atoms() & vs]
        out = []
        for s_ in (s1, s2, Tall):
            if s_ and (not out or len(s_) != len(out[-1])):
                out.append(s_)
        return out or [Tall]

    def attempt(Fs, plain=False):
        for T in (stages(Fs) if Fs else [Tall]):
            if run(T, Fs, plain):
                return True
        return False

    def run(T, Fs, plain):
        if plain:
            # plain membership of the single target in <T>
            r = cofactors(Fs[0], T)
            if r is None:
                return False
            c, qs = r
            usedT = [h for h, q in zip(T, qs) if q.t]
            lemmas.append(mk_implies(mk_and(*[req(h) for h in usedT]) if usedT else True, req(Fs[0])))
            certs.append({"kind": "K2", "c": c, "zero": [h.key() for h in usedT], "goal": Fs[0].key(),
                          "certificate": "c*goal = sum q_i*zero_i, %d cofactor terms" % sum(len(q.t) for q in qs)})
            return True
        gens = list(T)
        for k, f in enumerate(Fs):
            gens.append(RPoly.const(1) - RPoly.atom("y!%d" % k) * f)
        if not gens:
            return False
        r = cofactors(RPoly.const(1), gens)
        if r is None:
            return False
        c, qs = r
        usedT = [h for h, q in zip(T, qs[:len(T)]) if q.t]
        usedF = [f for f, q in zip(Fs, qs[len(T):]) if q.t]
        lemmas.append(mk_implies(mk_and(*[req(h) for h in usedT]) if usedT else True,
                                 mk_or(*[req(f) for f in usedF]) if usedF else False))
        certs.append({"kind": "K2" if len(usedF) <= 1 else "K2+M1", "c": c,
                      "zero": [h.key() for h in usedT], "nonzero": [f.key() for f in usedF],
                      "certificate": "1 = sum q_i*zero_i + sum r_j*(1 - y_j*nonzero_j), %d cofactor terms" % sum(len(q.t) for q in qs)})
        return True
    F = sorted(false_atoms, key=lambda p: len(p.t))
    # plain membership of every false atom, one tracked Groebner basis per distinct generator set
    for level in range(3):
        groups = {}
        for f in F:
            st_ = stages([f])
            if level < len(st_):
                T = st_[level]
                groups.setdefault(tuple(h.key() for h in T), (T, []))[1].append(f)
        for T, fs in groups.values():
            res = cofactors_multi(fs, T)
            for f, r in zip(fs, res):
                if r is None:
                    continue
                c, qs = r
                usedT = [h for h, q in zip(T, qs) if q.t]
                lemmas.append(mk_implies(mk_and(*[req(h) for h in usedT]) if usedT else True, req(f)))
                certs.append({"kind": "K2", "c": c, "zero": [h.key() for h in usedT], "goal": f.key(),
                              "certificate": "c*goal = sum q_i*zero_i, %d cofactor terms" % sum(len(q.t) for q in qs)})
        if lemmas:
            return lemmas, certs
    import os as _os, time as _tt
    _dbg = _os.environ.get("GOVC_DEBUG_RING")
    _t1 = _tt.time()
    if Tall and attempt([]):
        return lemmas, certs
    if _dbg:
        print("   stage 1-in-T: %.1fs" % (_tt.time() - _t1))
    # products of two false atoms: f*g in <T> gives  T' => f = 0 or g = 0  (M1: no zero divisors).  One tracked
    # basis per relevant generator set, every product reduced against it.
    if len(F) > 1:
        import time as _t
        t0 = _t.time()
        occ = {}
        for t in Tall:
            for v in t.atoms():
                occ[v] = occ.get(v, 0) + 1
        hubs = set(hubs) if hubs else {v for v, n in occ.items() if n > 3}

        def closure(vs):
            vs = set(vs)
            chosen = []
            left = list(Tall)
            changed = True
            while changed:
                changed = False
                for t in list(left):
                    a = t.atoms()
                    if a <= vs or ((a & vs) - hubs):
                        chosen.append(t)
                        left.remove(t)
                        if not a <= vs:
                            vs |= a
                        changed = True
            return [t for t in Tall if t in chosen]
        pairs = sorted(((f, g) for i, f in enumerate(F) for g in F[i + 1:]), key=lambda fg: len(fg[0].t) + len(fg[1].t))

        def emit_pairs(T, fgs):
            res = cofactors_multi([f * g for f, g in fgs], T)
            for (f, g), r in zip(fgs, res):
                if r is None:
                    continue
                c, qs = r
                usedT = [h for h, q in zip(T, qs) if q.t]
                lemmas.append(mk_implies(mk_and(*[req(h) for h in usedT]) if usedT else True, mk_or(req(f), req(g))))
                certs.append({"kind": "K2+M1", "c": c, "zero": [h.key() for h in usedT], "product": [f.key(), g.key()],
                              "certificate": "c*f*g = sum q_i*zero_i, %d cofactor terms" % sum(len(q.t) for q in qs)})
        # first one basis for everything connected to the compound false atoms, all products reduced against it
        big = set()
        for f in F:
            if len(f.t) > 1:
                big |= f.atoms()
        Tbig = closure(big) if big else []
        if Tbig:
            emit_pairs(Tbig, [(f, g) for f, g in pairs if len(f.t) > 1 and len(g.t) > 1])
            if _dbg:
                print("   stage pairs/one basis (%d generators): %.1fs, %d lemmas" % (len(Tbig), _t.time() - t0, len(lemmas)))
            if lemmas:
                return lemmas, certs
        groups = {}
        for f, g in pairs:
            T = closure(f.atoms() | g.atoms())
            if len(T) < 1:
                continue
            groups.setdefault(tuple(h.key() for h in T), (T, []))[1].append((f, g))
        for T, fgs in sorted(groups.values(), key=lambda x: len(x[0])):
            if _t.time() - t0 > 2 * budget * smt.slack():
                break
            res = cofactors_multi([f * g for f, g in fgs], T)
            for (f, g), r in zip(fgs, res):
                if r is None:
                    continue
                c, qs = r
                usedT = [h for h, q in zip(T, qs) if q.t]
                lemmas.append(mk_implies(mk_and(*[req(h) for h in usedT]) if usedT else True, mk_or(req(f), req(g))))
                certs.append({"kind": "K2+M1", "c": c, "zero": [h.key() for h in usedT], "product": [f.key(), g.key()],
                              "certificate": "c*f*g = sum q_i*zero_i, %d cofactor terms" % sum(len(q.t) for q in qs)})
            if lemmas:
                return lemmas, certs
    _t1 = _tt.time()
    for f in F:
        if _tt.time() - _t1 > 5 * budget * smt.slack():
            break
        if attempt([f]):
            return lemmas, certs
    if _dbg:
        print("   stage radical: %.1fs" % (_tt.time() - _t1))
    if len(F) > 1 and attempt(F[:6]):
        return lemmas, certs
    return lemmas, certs


def make_lemmas(ob, timeout, max_targets=24):
    return m1_lemmas(all_atoms(ob))
