"""Sampled replay for tier-F (ring mode) violations.

A failed ring-mode obligation comes with a truth assignment of polynomial equalities, not with concrete field
elements.  To attach a concrete failing input to the report nevertheless, the real function is run (go test -overlay,
nothing is written to the repository) on pseudo-random inputs that satisfy its `requires` clauses -- valid points in
random projective representations, random scalars, elements with random limbs inside the representation invariant,
random and valid encodings -- and every translatable `ensures` clause and the frame are evaluated with math/big on the
real limbs.  The first input that falsifies a clause is reported.  This only decorates a violation that the verifier
has already established; it never decides anything, and finding no such input leaves the line marked
no-failing-input-found.
"""
import json
import os
import re
import shutil
import subprocess
import tempfile

from . import ssa as S
from .replay import HELPERS, go_type
from .initcheck import RingGoGen, RING_HELPERS

FIELD = "filippo.io/edwards25519/field"
MAIN = "filippo.io/edwards25519"

ACCESSOR = '''package field

// injected by govc with go -overlay (never written to the repository): access to the limbs
func GovcLimbs(e *Element) [5]uint64 { return [5]uint64{e.l0, e.l1, e.l2, e.l3, e.l4} }
func GovcFromLimbs(l [5]uint64) *Element { return &Element{l[0], l[1], l[2], l[3], l[4]} }
'''

GEN_FIELD = r'''
func gElem(r *rand.Rand) *Element {
	switch r.Intn(6) {
	case 0:
		return new(Element).Zero()
	case 1:
		return new(Element).One()
	case 2:
		var b [32]byte
		r.Read(b[:])
		b[31] &= 127
		e, _ := new(Element).SetBytes(b[:])
		return e
	}
	var l [5]uint64
	for i := range l {
		l[i] = r.Uint64() % ((1 << 52) - 37)
		if r.Intn(4) == 0 { l[i] = (1 << 52) - 38 - uint64(r.Intn(3)) }
		if r.Intn(6) == 0 { l[i] = uint64(r.Intn(40)) }
	}
	return GovcFromLimbs(l)
}
'''

GEN_MAIN = r'''
var gCoord [4]*field.Element
var gCoordN int

// gElemCtx: field elements for functions that take coordinates one by one -- three times out of four the next
// coordinate of a valid point in a random representation (sometimes with one coordinate negated or zeroed)
func gElemCtx(r *rand.Rand) *field.Element {
	if gCoordN%4 == 0 {
		if r.Intn(4) == 0 {
			gCoord = [4]*field.Element{nil, nil, nil, nil}
		} else {
			p := gPoint(r)
			gCoord = [4]*field.Element{new(field.Element).Set(&p.x), new(field.Element).Set(&p.y), new(field.Element).Set(&p.z), new(field.Element).Set(&p.t)}
			switch r.Intn(6) {
			case 0:
				k := r.Intn(4)
				gCoord[k].Negate(gCoord[k])
			case 1:
				gCoord[r.Intn(4)].Zero()
			case 2:
				for k := range gCoord { gCoord[k].Zero() }
			}
		}
	}
	e := gCoord[gCoordN%4]
	gCoordN++
	if e == nil {
		return gElem(r)
	}
	return e
}

func gElem(r *rand.Rand) *field.Element {
	switch r.Intn(6) {
	case 0:
		return new(field.Element).Zero()
	case 1:
		return new(field.Element).One()
	case 2:
		var b [32]byte
		r.Read(b[:])
		b[31] &= 127
		e, _ := new(field.Element).SetBytes(b[:])
		return e
	}
	var l [5]uint64
	for i := range l {
		l[i] = r.Uint64() % ((1 << 52) - 37)
		if r.Intn(4) == 0 { l[i] = (1 << 52) - 38 - uint64(r.Intn(3)) }
		if r.Intn(6) == 0 { l[i] = uint64(r.Intn(40)) }
	}
	return field.GovcFromLimbs(l)
}
func gScalar(r *rand.Rand) *Scalar {
	switch r.Intn(8) {
	case 0:
		return NewScalar()
	case 1:
		var one [32]byte
		one[0] = 1
		s, _ := NewScalar().SetCanonicalBytes(one[:])
		return s
	case 2:
		s, _ := NewScalar().SetCanonicalBytes(scalarMinusOneBytes[:])
		return s
	}
	var b [64]byte
	r.Read(b[:])
	s, _ := NewScalar().SetUniformBytes(b[:])
	return s
}
var gLast *Point

func gPoint(r *rand.Rand) *Point {
	var p *Point
	switch r.Intn(12) {
	case 0:
		p = NewIdentityPoint()
	case 1:
		p = NewGeneratorPoint()
	case 2, 3, 4, 5, 6:
		// related to the previous sample: the same point, its negation, or a point sharing one coordinate
		if gLast == nil {
			p = new(Point).ScalarBaseMult(gScalar(r))
			break
		}
		p = new(Point).Set(gLast)
		switch r.Intn(4) {
		case 1:
			p.x.Negate(&p.x)
			p.t.Negate(&p.t)
		case 2:
			p.y.Negate(&p.y)
			p.t.Negate(&p.t)
		case 3:
			p.x.Negate(&p.x)
			p.y.Negate(&p.y)
		}
	default:
		p = new(Point).ScalarBaseMult(gScalar(r))
	}
	gLast = new(Point).Set(p)
	if r.Intn(3) != 0 {
		var lam *field.Element
		for {
			lam = gElem(r)
			if lam.Equal(new(field.Element).Zero()) != 1 { break }
		}
		p.x.Multiply(&p.x, lam)
		p.y.Multiply(&p.y, lam)
		p.z.Multiply(&p.z, lam)
		p.t.Multiply(&p.t, lam)
	}
	return p
}
func gBytes(r *rand.Rand, n int) []byte {
	b := make([]byte, n)
	r.Read(b)
	if n == 32 {
		switch r.Intn(4) {
		case 0:
			copy(b, gPoint(r).Bytes())
		case 1:
			copy(b, gScalar(r).Bytes())
		case 2:
			b[31] &= 127
		}
	}
	return b
}
func gScalars(r *rand.Rand, n int) []*Scalar {
	out := make([]*Scalar, n)
	for i := range out { out[i] = gScalar(r) }
	return out
}
func gPoints(r *rand.Rand, n int) []*Point {
	out := make([]*Point, n)
	for i := range out { out[i] = gPoint(r) }
	return out
}
func cloneScalars(a []*Scalar) []*Scalar {
	out := make([]*Scalar, len(a))
	for i := range a { c := *a[i]; out[i] = &c }
	return out
}
func clonePoints(a []*Point) []*Point {
	out := make([]*Point, len(a))
	for i := range a { c := *a[i]; out[i] = &c }
	return out
}

// reference arithmetic of the curve group on affine coordinates over math/big (independent of the code under test)
type gpt struct{ x, y *big.Int }

var refD = func() *big.Int {
	d := new(big.Int).Mul(big.NewInt(-121665), new(big.Int).ModInverse(big.NewInt(121666), pP))
	return d.Mod(d, pP)
}()
var refBase = gpt{lit("15112221349535400772501151409588531511454012693041857206046113283949847762202"), lit("46316835694926478169428394003475163141307993866256225615783033603165251855960")}

func refId() gpt { return gpt{big.NewInt(0), big.NewInt(1)} }
func refAdd(a, b gpt) gpt {
	m := func(u, v *big.Int) *big.Int { z := new(big.Int).Mul(u, v); return z.Mod(z, pP) }
	x1y2, y1x2, y1y2, x1x2 := m(a.x, b.y), m(a.y, b.x), m(a.y, b.y), m(a.x, b.x)
	t := m(refD, m(x1x2, y1y2))
	dx := new(big.Int).Add(big.NewInt(1), t)
	dy := new(big.Int).Sub(big.NewInt(1), t)
	x3 := m(new(big.Int).Add(x1y2, y1x2), new(big.Int).ModInverse(dx.Mod(dx, pP), pP))
	y3 := m(new(big.Int).Add(y1y2, x1x2), new(big.Int).ModInverse(dy.Mod(dy, pP), pP))
	return gpt{x3, y3}
}
func refNeg(a gpt) gpt { x := new(big.Int).Neg(a.x); return gpt{x.Mod(x, pP), a.y} }
func refSmul(n *big.Int, p gpt) gpt {
	acc := refId()
	if n.Sign() < 0 { return refSmul(new(big.Int).Neg(n), refNeg(p)) }
	for i := n.BitLen() - 1; i >= 0; i-- {
		acc = refAdd(acc, acc)
		if n.Bit(i) == 1 { acc = refAdd(acc, p) }
	}
	return acc
}
func refPtV(p Point) gpt {
	zi := finvB(lvL(field.GovcLimbs(&p.z)))
	x := new(big.Int).Mul(lvL(field.GovcLimbs(&p.x)), zi)
	y := new(big.Int).Mul(lvL(field.GovcLimbs(&p.y)), zi)
	return gpt{x.Mod(x, pP), y.Mod(y, pP)}
}
func ptEq(a, b gpt) bool { return a.x.Cmp(b.x) == 0 && a.y.Cmp(b.y) == 0 }

func gP2(r *rand.Rand) *projP2 { return new(projP2).FromP3(gPoint(r)) }
func gCached(r *rand.Rand) *projCached { return new(projCached).FromP3(gPoint(r)) }
func gAffine(r *rand.Rand) *affineCached { return new(affineCached).FromP3(gPoint(r)) }
func gP1xP1(r *rand.Rand) *projP1xP1 { return new(projP1xP1).Add(gPoint(r), gCached(r)) }
'''


class GroupGoGen(RingGoGen):
    """RingGoGen + the tier-G vocabulary, evaluated against reference arithmetic on affine coordinates"""

    def __init__(self, prog, contracts, env, pkgname, assigned, lens):
        super().__init__(prog, contracts, env, pkgname, assigned)
        self.lens = lens

    def tr(self, ast, old=False):
        if ast[0] == "gsum":
            _, var, lo, hi, body = ast
            lo = self.num(self.tr(lo, old))
            hi = self.num(self.tr(hi, old))
            acc = "refId()"
            saved = self.bound.get(var)
            for i in range(lo, hi):
                self.bound[var] = ("num", i, None)
                acc = "refAdd(%s, %s)" % (acc, self.pt(self.tr(body, old)))
            if saved is None:
                self.bound.pop(var, None)
            else:
                self.bound[var] = saved
            return ("pt", acc, None)
        return super().tr(ast, old)

    def pt(self, x):
        if x[0] != "pt":
            raise ValueError("point expected, got %r" % (x[0],))
        return x[1]

    def binary(self, ast, old):
        _, op, a, b = ast
        if op in ("==", "!="):
            x, y = self.tr(a, old), self.tr(b, old)
            if x[0] == "pt" or y[0] == "pt":
                return ("bool", "%sptEq(%s, %s)" % ("" if op == "==" else "!", self.pt(x), self.pt(y)), None)
        return super().binary(ast, old)

    def call(self, name, args, old):
        if name == "len":
            a = args[0]
            if a[0] == "id" and a[1] in self.lens:
                return ("num", self.lens[a[1]], None)
        if name == "pt":
            e, t = self.valexpr(self.tr(args[0], old))
            if self.prog.kind(t) == "ptr":
                e, t = "(*%s)" % e, self.prog.elem(t)
            if t != MAIN + ".Point":
                raise ValueError("pt() of %s has no reference translation" % t)
            return ("pt", "refPtV(%s)" % e, None)
        if name == "smul":
            return ("pt", "refSmul(%s, %s)" % (self.big(self.tr(args[0], old)), self.pt(self.tr(args[1], old))), None)
        if name == "gadd":
            return ("pt", "refAdd(%s, %s)" % (self.pt(self.tr(args[0], old)), self.pt(self.tr(args[1], old))), None)
        if name == "gneg":
            return ("pt", "refNeg(%s)" % self.pt(self.tr(args[0], old)), None)
        if name == "gid":
            return ("pt", "refId()", None)
        if name == "gbase":
            return ("pt", "refBase", None)
        if name == "gvalid":
            parts = [RingGoGen.call(self, n_, args, old)[1] for n_ in ("elems", "init", "validc")]
            return ("bool", "(" + " && ".join(parts) + ")", None)
        return super().call(name, args, old)


def generator_for(prog, t, pkgname, length_of, many_elems=False, wide_ints=False):
    """Go expression producing a pseudo-random value of parameter type t (None: not supported)"""
    k = prog.kind(t)
    if k == "ptr":
        et = prog.elem(t)
        if et == FIELD + ".Element":
            return "gElemCtx(rng)" if (pkgname == "edwards25519" and many_elems) else "gElem(rng)"
        if pkgname == "edwards25519":
            m = {MAIN + ".Point": "gPoint(rng)", MAIN + ".Scalar": "gScalar(rng)", MAIN + ".projP2": "gP2(rng)",
                 MAIN + ".projCached": "gCached(rng)", MAIN + ".affineCached": "gAffine(rng)", MAIN + ".projP1xP1": "gP1xP1(rng)"}
            if et in m:
                return m[et]
        if prog.kind(et) == "array" and prog.int_info(prog.elem(et)) == (8, False):
            n = prog.array_len(et)
            return "(*[%d]byte)(gArr(rng, %d))" % (n, n)
        if prog.kind(et) == "array" and prog.int_info(prog.elem(et)) == (64, False):
            n = prog.array_len(et)
            return "(*%s)(gWords(rng, %d))" % (go_type(prog, et, MAIN if pkgname == "edwards25519" else FIELD), n)
        return None
    if k == "slice" and prog.int_info(prog.elem(t)) == (8, False):
        return "gBytesN(rng, %s)" % length_of
    if k == "slice" and pkgname == "edwards25519" and prog.kind(prog.elem(t)) == "ptr":
        et = prog.elem(prog.elem(t))
        if et == MAIN + ".Scalar":
            return "gScalars(rng, %s)" % length_of
        if et == MAIN + ".Point":
            return "gPoints(rng, %s)" % length_of
    ii = prog.int_info(t)
    if ii:
        if ii[0] == 64 and not ii[1] and wide_ints:
            return "%s(gU64(rng))" % go_type(prog, t, "")
        return "%s(rng.Intn(2))" % go_type(prog, t, "")
    if k == "ptr" and prog.kind(prog.elem(t)) == "array" and prog.int_info(prog.elem(prog.elem(t))) == (64, False):
        n = prog.array_len(prog.elem(t))
        return "(*%s)(gWords(rng, %d))" % (go_type(prog, prog.elem(t), MAIN if pkgname == "edwards25519" else FIELD), n)
    return None


def sampled_replay(repo, ob, trials=400, all_modes=False):
    """returns dict(label -> description of the failing input) for the ensures clauses falsified on the real code,
    plus '__frame__' / '__panic__' entries; {} if nothing was reproduced; None if the function cannot be sampled"""
    run = getattr(ob, "run", None)
    if run is None or (run.mode not in ("ring", "group") and not all_modes) or run.c.variant or run.f.get("lemma"):
        return None
    prog, f, c = run.prog, run.f, run.c
    if not f.get("hasBody") or "$" in f["short"]:
        return None
    pkg = f.get("pkg", "")
    pkgname = "field" if pkg == FIELD else "edwards25519"
    pkgdir = "field" if pkg == FIELD else "."
    if run.mode == "group" and pkgname != "edwards25519":
        return None
    ghosts = any(k == "ghost" for k, _ in c.other)
    # lengths of pointer-slice parameters: the values of the contract's entry split (each gets its own trial function)
    lens_list = [{}]
    split = {}
    for kind, txt in c.other:
        if kind == "entrysplit":
            m = re.match(r"^len\((\w+)\)\s+in\s+(\d+)\s*\.\.\s*(\d+)$", txt.strip())
            if m:
                split[m.group(1)] = (int(m.group(2)), int(m.group(3)))
    if split:
        lo = max(v[0] for v in split.values())
        hi = min(v[1] for v in split.values())
        lens_list = [{k: n for k in split} for n in range(lo, hi)]
    # alias classes of the partition under which the obligation failed
    alias = {}
    if ob.part and ob.part not in ("distinct", "static", "flow", "ground"):
        for grp in ob.part.split("|"):
            names_ = grp.split("=")
            for n in names_[1:]:
                alias[n] = names_[0]
    skipped = []

    def make_trial(fname, lens):
        setup, env, names = [], {}, []
        for gname, g in prog.globals.items():
            if not gname.startswith(pkg + "."):
                continue
            short = gname[len(pkg) + 1:]
            t = prog.elem(g["type"])
            k = prog.kind(t)
            if k == "ptr":
                env[short] = ("ptr", short, prog.elem(t), "(*%s)" % short)
            elif prog.int_info(t):
                env[short] = ("int", short, t, None)
            elif k in ("struct", "array"):
                env[short] = ("val", short, t, None)
        many = sum(1 for q in f["params"] if prog.kind(q["type"]) == "ptr" and prog.elem(q["type"]) == FIELD + ".Element") >= 4
        for i, p in enumerate(f["params"]):
            nm = c.params[i] if i < len(c.params) else p["name"]
            gv = "p_" + re.sub(r"\W", "_", nm)
            t = p["type"]
            k = prog.kind(t)
            names.append(gv)
            if nm in alias and alias[nm] in env:
                if k == "ptr":
                    # same object under the parameter's own (possibly differently named) pointer type
                    setup.append("%s := (%s)(%s)" % (gv, go_type(prog, t, pkg), env[alias[nm]][1]))
                    setup.append("old_%s := *%s" % (gv, gv))
                    env[nm] = ("ptr", gv, prog.elem(t), "old_" + gv)
                else:
                    setup.append("%s := %s" % (gv, env[alias[nm]][1]))
                    env[nm] = (env[alias[nm]][0], gv, env[alias[nm]][2], env[alias[nm]][3])
                continue
            ln = "32"
            v = run.param_vals.get(p["name"])
            if k == "slice" and nm in lens:
                ln = str(lens[nm])
            elif k == "slice" and v is not None:
                cl = run.dom.concrete(v.len)
                ln = str(cl) if cl is not None else "[]int{0, 31, 32, 32, 32, 33, 64}[rng.Intn(7)]"
            g = generator_for(prog, t, pkgname, ln, many, wide_ints=run.mode in ("lia", "bv"))
            if g is None:
                return None
            setup.append("%s := %s" % (gv, g))
            if k == "ptr":
                setup.append("old_%s := *%s" % (gv, gv))
                env[nm] = ("ptr", gv, prog.elem(t), "old_" + gv)
            elif k == "slice" and prog.kind(prog.elem(t)) == "ptr":
                cl_ = "cloneScalars" if prog.elem(prog.elem(t)) == MAIN + ".Scalar" else "clonePoints"
                setup.append("old_%s := %s(%s)" % (gv, cl_, gv))
                env[nm] = ("slice", gv, t, "old_" + gv)
            elif k == "slice":
                setup.append("old_%s := append([]byte{}, %s...)" % (gv, gv))
                env[nm] = ("slice", gv, t, "old_" + gv)
            else:
                env[nm] = ("int", gv, t, None)
        # element-alias partitions (v=points[j]): the receiver is also the j-th element of the slice
        for an, tgt in alias.items():
            m_ = re.match(r"^(\w+)\[(\d+)\]$", an)
            if m_ and m_.group(1) in env and tgt in env and env[m_.group(1)][0] == "slice":
                sl_ = env[m_.group(1)]
                j_ = int(m_.group(2))
                setup.append("if %d < len(%s) { %s[%d] = %s; %s = clonePoints(%s) }" % (j_, sl_[1], sl_[1], j_, env[tgt][1], sl_[3], sl_[1]))
        nres = len(f["results"])
        resvars = ["r%d" % i for i in range(nres)]
        for i, rt in enumerate(f["results"]):
            k = prog.kind(rt)
            kind = "ptr" if k == "ptr" else "slice" if k == "slice" else "iface" if k == "interface" else "int" if prog.int_info(rt) else "val"
            ent = (kind, resvars[i], prog.elem(rt) if kind == "ptr" else rt, None)
            env["result%d" % i] = ent
            if nres == 1:
                env["result"] = ent
        assigned = set()
        for a in (c.assigns or []):
            n = a
            while n[0] in ("deref", "field", "index", "slice"):
                n = n[1]
            if n[0] == "id":
                assigned.add(n[1])
        if run.mode == "group":
            gen = GroupGoGen(prog, run.V.contracts, env, pkgname, assigned, lens)
            gen_pre = GroupGoGen(prog, run.V.contracts, env, pkgname, None, lens)
        else:
            gen = RingGoGen(prog, run.V.contracts, env, pkgname, assigned)
            gen_pre = RingGoGen(prog, run.V.contracts, env, pkgname, None)
        pre, post = [], []
        for i, (lab, ast, txt) in enumerate(c.requires):
            try:
                pre.append(gen_pre.tr(ast)[1])
            except Exception as e:
                if ghosts:
                    continue
                return None     # a precondition that cannot be evaluated: sampling could report inputs outside the contract
        pan = []
        for kind, txt in c.other:
            if kind == "panics":
                from .cparse import parse_expr, split_label
                lab, e = split_label(txt)
                try:
                    pan.append(gen_pre.tr(parse_expr(e))[1])
                except Exception:
                    return None
        for i, (lab, ast, txt) in enumerate(c.ensures):
            try:
                post.append((lab or str(i + 1), txt, gen.tr(ast)[1]))
            except Exception as e:
                skipped.append("%s: %s" % (txt, e))
        frame = []
        for i, p in enumerate(f["params"]):
            nm = c.params[i] if i < len(c.params) else p["name"]
            if nm in assigned or nm in alias and alias[nm] in assigned or any(alias.get(a) == nm for a in assigned):
                continue
            kind = env[nm][0]
            if kind == "ptr":
                frame.append(("frame *%s" % nm, "reflect.DeepEqual(*%s, %s)" % (env[nm][1], env[nm][3])))
            elif kind == "slice":
                skipidx = [int(re.match(r"^\w+\[(\d+)\]$", an).group(1)) for an, tgt in alias.items()
                           if re.match(r"^%s\[\d+\]$" % re.escape(nm), an) and tgt in assigned]
                if skipidx:
                    # elements that are the (assigned) receiver itself are allowed to change
                    cond = " && ".join("i != %d" % j for j in skipidx)
                    frame.append(("frame %s[...]" % nm, "func() bool { for i := range %s { if %s && !reflect.DeepEqual(%s[i], %s[i]) { return false } }; return true }()" % (env[nm][1], cond, env[nm][1], env[nm][3])))
                else:
                    frame.append(("frame %s[...]" % nm, "reflect.DeepEqual(%s, %s)" % (env[nm][1], env[nm][3])))
        if f["recv"]:
            call = "%s.%s(%s)" % (names[0], f["short"], ", ".join(names[1:]))
        else:
            call = "%s(%s)" % (f["short"], ", ".join(names))
        dump = []
        for i, p in enumerate(f["params"]):
            nm = c.params[i] if i < len(c.params) else p["name"]
            kind, gv = env[nm][0], env[nm][1]
            t = p["type"]
            if kind == "ptr":
                dump.append('fmt.Sprintf("%s=%%+v", %s)' % (nm, env[nm][3]))
            elif kind == "slice" and prog.kind(prog.elem(t)) == "ptr":
                dump.append('func() string { s := "%s=["; for _, e := range %s { s += fmt.Sprintf("%%+v ", *e) }; return s + "]" }()' % (nm, env[nm][3]))
            elif kind == "slice":
                dump.append('fmt.Sprintf("%s=%%x", %s)' % (nm, env[nm][3]))
            else:
                dump.append('fmt.Sprintf("%s=%%v", %s)' % (nm, gv))
        src = ["func %s(rng *rand.Rand) (used bool, failed []string, inputs string) {" % fname,
               "\t// a panic while inputs are generated or a clause is evaluated is a defect of this harness, not of the code:",
               "\t// the trial is discarded (the call itself runs under its own recover below)",
               "\tdefer func() { if r := recover(); r != nil { used = false; failed = nil } }()"]
        src += ["\t" + s_ for s_ in setup]
        src.append("\tinputs = strings.Join([]string{%s}, \" \")" % ", ".join(dump))
        for e in pre:
            src.append("\tif !(%s) { return false, nil, inputs }" % e)
        src.append("\tused = true")
        panexpr = " || ".join("(%s)" % e for e in pan) if pan else "false"
        src.append("\tmayPanic := %s" % panexpr)
        for i, rt in enumerate(f["results"]):
            src.append("\tvar %s %s" % (resvars[i], go_type(prog, rt, pkg)))
        src.append("\tpanicked := func() (pv interface{}) {")
        src.append("\t\tdefer func() { pv = recover() }()")
        if nres:
            src.append("\t\t%s = %s" % (", ".join(resvars), call))
        else:
            src.append("\t\t" + call)
        src.append("\t\treturn nil")
        src.append("\t}()")
        if nres:
            src.append("\t" + "; ".join("_ = %s" % r for r in resvars))
        src.append("\tif panicked != nil {")
        src.append("\t\tif !mayPanic { failed = append(failed, fmt.Sprintf(\"__panic__ %v\", panicked)) }")
        src.append("\t\treturn")
        src.append("\t}")
        src.append("\tif mayPanic { failed = append(failed, \"__nopanic__ returned normally although a declared panic condition holds\"); return }")
        for lab, txt, e in post:
            src.append("\tif !(%s) { failed = append(failed, %s) }" % (e, json.dumps(lab)))
        for lab, e in frame:
            src.append("\tif !(%s) { failed = append(failed, %s) }" % (e, json.dumps("__frame__ " + lab)))
        src.append("\treturn")
        src.append("}")
        return src

    trial_src, trial_names = [], []
    for k_, lens in enumerate(lens_list):
        t_ = make_trial("govcTrial%d" % k_, lens)
        if t_ is None:
            return None
        trial_src += t_ + [""]
        trial_names.append("govcTrial%d" % k_)
    imports = ['"fmt"', '"math/big"', '"math/rand"', '"reflect"', '"strings"', '"testing"']
    if pkgname == "edwards25519":
        imports.append('"filippo.io/edwards25519/field"')
    src = ["package %s" % pkgname, "", "import (", "\n".join("\t" + x for x in imports), ")", "",
           "var _ = reflect.DeepEqual", "var _ = big.NewInt", "var _ = strings.Join",
           "var _ = field.GovcLimbs" if pkgname == "edwards25519" else "var _ = GovcLimbs",
           HELPERS, RING_HELPERS, GEN_MAIN if pkgname == "edwards25519" else GEN_FIELD,
           "func gArr(r *rand.Rand, n int) []byte { b := make([]byte, n); r.Read(b); return b }",
           "func gU64(r *rand.Rand) uint64 { switch r.Intn(6) { case 0: return 0; case 1: return 1; case 2: return ^uint64(0); case 3: return r.Uint64() >> uint(r.Intn(64)) }; return r.Uint64() }",
           "func gWords(r *rand.Rand, n int) []uint64 { w := make([]uint64, n); for i := range w { w[i] = gU64(r) }; if n > 0 && r.Intn(4) != 0 { w[n-1] >>= 4 + uint(r.Intn(8)) }; return w }",
           "func gBytesN(r *rand.Rand, n int) []byte { " + ("return gBytes(r, n)" if pkgname == "edwards25519" else "b := make([]byte, n); r.Read(b); if n == 32 && r.Intn(2) == 0 { b[31] &= 127 }; return b") + " }",
           ""] + trial_src
    if run.mode == "group":
        trials = min(trials, 60)     # every trial runs reference scalar multiplications over math/big
    src += ["func TestGovcSampled(t *testing.T) {",
            "\trng := rand.New(rand.NewSource(20261001))",
            "\ttrialsOf := []func(*rand.Rand) (bool, []string, string){%s}" % ", ".join(trial_names),
            "\tused := 0",
            "\tfor i := 0; i < %d; i++ {" % trials,
            "\t\tu, failed, inputs := trialsOf[i%len(trialsOf)](rng)",
            "\t\tif u { used++ }",
            "\t\tif len(failed) > 0 {",
            "\t\t\tfmt.Printf(\"GOVC-SAMPLE {\\\"trial\\\": %d, \\\"failed\\\": %q, \\\"inputs\\\": %q}\\n\", i, strings.Join(failed, \"|\"), inputs)",
            "\t\t\tbreak",
            "\t\t}",
            "\t}",
            "\tfmt.Printf(\"GOVC-SAMPLE-DONE {\\\"used\\\": %d}\\n\", used)",
            "}"]
    text = "\n".join(src) + "\n"
    tmp = tempfile.mkdtemp(prefix="govc_sampled_")
    try:
        tf = os.path.join(tmp, "govc_sampled_test.go")
        af = os.path.join(tmp, "govc_accessor.go")
        open(tf, "w").write(text)
        open(af, "w").write(ACCESSOR)
        ov = os.path.join(tmp, "ov.json")
        json.dump({"Replace": {os.path.join(repo, pkgdir, "govc_sampled_test.go"): tf,
                               os.path.join(repo, "field", "govc_accessor.go"): af}}, open(ov, "w"))
        cmd = ["go", "test", "-overlay", ov, "-vet=off", "-count=1", "-timeout", "120s", "-v", "-tags", "verif", "-run", "^TestGovcSampled$", "./" + pkgdir]
        r = subprocess.run(cmd, cwd=repo, capture_output=True, env=S.GOENV, timeout=300)
        out = r.stdout.decode(errors="replace") + r.stderr.decode(errors="replace")
    finally:
        shutil.rmtree(tmp, ignore_errors=True)
    res = {"__test__": text, "__skipped__": skipped}
    m = re.search(r"^GOVC-SAMPLE (\{.*\})$", out, re.M)
    d = re.search(r"^GOVC-SAMPLE-DONE (\{.*\})$", out, re.M)
    if not m and not d:
        res["__error__"] = out[-1200:]
        return res
    if d:
        res["__used__"] = json.loads(d.group(1)).get("used", 0)
    if m:
        s = json.loads(m.group(1))
        res["__inputs__"] = s["inputs"]
        res["__trial__"] = s["trial"]
        for lab in s["failed"].split("|"):
            res[lab.split(" ")[0] if lab.startswith("__") else lab] = lab
    return res
