"""Solver portfolio: every query is raced on z3 4.8.12, z3-new 5.1.0 and cvc5 1.0.x."""
import hashlib
import json
import os
import re
import signal
import subprocess
import tempfile
import threading
import time

SOLVERS = {
    "z3-4.8.12": lambda f, t: ["/usr/bin/z3", "-T:%d" % t, f],
    "z3-5.1.0": lambda f, t: ["z3-new", "-T:%d" % t, f],
    "cvc5-1.0": lambda f, t: ["/usr/bin/cvc5", "--tlimit=%d" % (t * 1000), "--produce-models", f],
}

FAST_FIRST = "z3-4.8.12"
FAST_TIMEOUT = 2

CACHE_DIR = os.environ.get("GOVC_CACHE_DIR") or os.path.join(os.path.dirname(os.path.dirname(os.path.abspath(__file__))), ".cache")
_cache_lock = threading.Lock()
_cache = None
USE_CACHE = True


def _load_cache():
    global _cache
    if _cache is None:
        _cache = {}
        p = os.path.join(CACHE_DIR, "verdicts.jsonl")
        if os.path.exists(p):
            for line in open(p):
                try:
                    d = json.loads(line)
                    _cache[d["h"]] = d
                except Exception:
                    pass
    return _cache


def _store_cache(h, d):
    with _cache_lock:
        _load_cache()[h] = d
        os.makedirs(CACHE_DIR, exist_ok=True)
        with open(os.path.join(CACHE_DIR, "verdicts.jsonl"), "a") as f:
            f.write(json.dumps(d) + "\n")


class Result:
    def __init__(self, status, solver, secs, output="", model=None, per_solver=None, cached=False):
        self.status = status      # 'unsat' | 'sat' | 'unknown' | 'timeout' | 'error'
        self.solver = solver
        self.secs = secs
        self.output = output
        self.model = model or {}
        self.per_solver = per_solver or {}
        self.cached = cached
        self.confirmed = 1      # number of solvers that returned this verdict


def parse_model(text):
    """parse (get-value ...) style or (define-fun ...) style output into {name: int}"""
    model = {}
    for m in re.finditer(r"\(define-fun\s+(\S+)\s+\(\)\s+(\(_ BitVec \d+\)|Int|Bool)\s+([^\n]*?)\)\s*(?=\n|\(define-fun|\)\s*$)", text):
        name, sort, val = m.group(1), m.group(2), m.group(3).strip()
        v = parse_value(val)
        if v is not None:
            model[name.strip("|")] = v
    for m in re.finditer(r"\(\((\|[^|]*\||[^\s()]+)\s+((?:\(- \d+\))|(?:#[xb][0-9a-fA-F]+)|(?:\d+)|true|false)\)\)", text):
        v = parse_value(m.group(2))
        if v is not None:
            model[m.group(1).strip("|")] = v
    return model


def parse_value(val):
    val = val.strip()
    if val.startswith("#x"):
        return int(val[2:], 16)
    if val.startswith("#b"):
        return int(val[2:], 2)
    if val in ("true", "false"):
        return val == "true"
    m = re.match(r"^\(-\s*(\d+)\)$", val)
    if m:
        return -int(m.group(1))
    if re.match(r"^\d+$", val):
        return int(val)
    return None


def slack():
    """Timeouts are wall-clock; when the machine is oversubscribed (several checks running at once) every solver gets
    a fraction of a core, so budgets are stretched by the load factor (at most 4x).  A verdict never depends on it."""
    try:
        return min(4.0, max(1.0, os.getloadavg()[0] / (os.cpu_count() or 1)))
    except OSError:
        return 1.0


def run_portfolio(text, timeout=20, solvers=None, want_model=True, need=1, use_cache=None, fast=False):
    """Race the solvers on `text` (an SMT-LIB script ending in (check-sat)).
    Returns Result.  need = number of solvers that must agree on a definite answer before
    the race stops (1 for quick, 2 for thorough)."""
    if use_cache is None:
        use_cache = USE_CACHE
    h = hashlib.sha256(text.encode()).hexdigest()
    if use_cache:
        with _cache_lock:
            c = _load_cache().get(h)
        if c is not None and c["status"] in ("unsat",) and c.get("need", 1) >= need:
            rc_ = Result(c["status"], c["solver"], 0.0, per_solver=c.get("per_solver", {}), cached=True)
            rc_.confirmed = c.get("need", 1)
            return rc_
    if fast and solvers is None and need == 1 and FAST_FIRST and len(text) < 400000:
        # most obligations are easy: ask one solver first (a third of the processes), race all three only if it
        # does not answer quickly
        r = run_portfolio(text, timeout=FAST_TIMEOUT, solvers=[FAST_FIRST], want_model=want_model, need=1, use_cache=False)
        if r.status == "unsat":
            _store_cache(h, {"h": h, "status": "unsat", "solver": r.solver, "need": 1, "per_solver": r.per_solver})
            return r
        # a `sat` from the single fast solver is not reported on its own: the full race below hears the others
    solvers = solvers or list(SOLVERS)
    timeout = int(round(timeout * slack()))
    fd, path = tempfile.mkstemp(suffix=".smt2", prefix="govc_")
    full = text
    if want_model and "(get-model)" not in text:
        full = text + "\n(get-model)\n"
    with os.fdopen(fd, "w") as f:
        f.write(full)
    procs = {}
    t0 = time.time()
    for s in solvers:
        try:
            procs[s] = subprocess.Popen(SOLVERS[s](path, timeout), stdout=subprocess.PIPE, stderr=subprocess.STDOUT,
                                        start_new_session=True)
        except FileNotFoundError:
            pass
    per = {}
    definite = []
    outputs = {}
    pending = dict(procs)
    deadline = t0 + timeout + 2
    while pending and time.time() < deadline:
        for s, p in list(pending.items()):
            if p.poll() is not None:
                out = p.stdout.read().decode(errors="replace")
                outputs[s] = out
                first = out.strip().split("\n")[0].strip() if out.strip() else ""
                st = first if first in ("sat", "unsat", "unknown", "timeout") else "error"
                per[s] = {"status": st, "secs": round(time.time() - t0, 3)}
                del pending[s]
                if st in ("sat", "unsat"):
                    definite.append(s)
        agree = {}
        for s in definite:
            agree.setdefault(per[s]["status"], []).append(s)
        if any(len(v) >= need for v in agree.values()):
            break
        if definite and need > 1:
            # thorough tier: a second verdict is awaited for a while proportional to what the first one took
            # (at least 3 s), not for the whole timeout -- the slower solvers routinely need 10-100x on these queries
            t_first = per[definite[0]]["secs"]
            if time.time() - t0 > t_first + max(3.0, 4 * t_first) * slack():
                break
        # a `sat` is what turns into an alarm, so it is not taken from one solver alone if another one can be heard:
        # the others get a bounded time (as for the second `unsat` of the thorough tier); a contradicting `unsat`
        # is resolved by majority below
        if "sat" in agree:
            t_first = per[agree["sat"][0]]["secs"]
            if not pending or len(definite) >= 2 or time.time() - t0 > t_first + max(3.0, 4 * t_first) * slack():
                break
        if pending:
            time.sleep(0.005)
    for s, p in pending.items():
        try:
            os.killpg(os.getpgid(p.pid), signal.SIGKILL)
        except Exception:
            pass
        per.setdefault(s, {"status": "killed", "secs": round(time.time() - t0, 3)})
    for p in procs.values():
        try:
            p.wait(timeout=1)
        except Exception:
            pass
    try:
        os.unlink(path)
    except OSError:
        pass
    secs = time.time() - t0
    sts = {s: per[s]["status"] for s in per}
    if definite:
        vals = set(per[s]["status"] for s in definite)
        if len(vals) > 1:
            ns = sum(1 for s in definite if per[s]["status"] == "sat")
            nu = len(definite) - ns
            if ns == nu:
                return Result("error", ",".join(definite), secs, "SOLVER DISAGREEMENT: %r" % sts, per_solver=per)
            # two against one: the odd one out is recorded (per_solver) and overruled
            st = "sat" if ns > nu else "unsat"
            win = [s for s in definite if per[s]["status"] == st][0]
            model = parse_model(outputs[win]) if st == "sat" else {}
            r = Result(st, win, secs, outputs[win][:4000], model, per)
            r.confirmed = max(ns, nu)
            r.overruled = [s for s in definite if per[s]["status"] != st]
            if st == "unsat":
                _store_cache(h, {"h": h, "status": "unsat", "solver": win, "need": r.confirmed, "per_solver": per})
            return r
        st = vals.pop()
        win = definite[0]
        model = parse_model(outputs[win]) if st == "sat" else {}
        r = Result(st, win, secs, outputs[win][:4000], model, per)
        # thorough tier: a second solver is awaited until the timeout; if none answers, the single verdict stands
        # and is counted separately in the evidence (a contradicting answer is an error, see above)
        r.confirmed = len(definite)
        if st == "unsat":
            _store_cache(h, {"h": h, "status": "unsat", "solver": win, "need": len(definite), "per_solver": per})
        return r
    if all(v == "timeout" or v == "killed" for v in sts.values()):
        return Result("timeout", "", secs, "", per_solver=per)
    out = "\n".join("%s: %s" % (s, outputs.get(s, "")[:500]) for s in outputs)
    if any(v == "error" for v in sts.values()) and not any(v in ("unknown", "timeout", "killed") for v in sts.values()):
        return Result("error", "", secs, out, per_solver=per)
    return Result("unknown", "", secs, out, per_solver=per)
