"""Loading of the ssajson dump and helpers over types / CFG."""
import json
import os
import subprocess

HERE = os.path.dirname(os.path.abspath(__file__))
ROOT = os.path.dirname(HERE)
GOENV = dict(os.environ, GOFLAGS="-mod=mod", GOPROXY="off", GOSUMDB="off", GOTOOLCHAIN="local")

INT_TYPES = {
    "uint64": (64, False), "int64": (64, True), "uint": (64, False), "int": (64, True),
    "uint32": (32, False), "int32": (32, True), "uint16": (16, False), "int16": (16, True),
    "uint8": (8, False), "int8": (8, True), "byte": (8, False), "uintptr": (64, False),
    "untyped int": (64, True), "rune": (32, True),
}


class Program:
    def __init__(self, data):
        self.tags = data["tags"]
        self.types = data["types"]
        self.pkgs = data["packages"]
        self.funcs = {}
        self.globals = {}
        self.opaque = frozenset()
        for p, pk in self.pkgs.items():
            for n, f in pk["funcs"].items():
                self.funcs[n] = f
            for g in pk["globals"]:
                self.globals[g["name"]] = g

    # ---- types
    def ty(self, t):
        return self.types[t]

    def under(self, t):
        e = self.types[t]
        while e["kind"] == "named":
            t = e["under"]
            e = self.types[t]
        return t, e

    def view(self, opaque):
        """same program, with the given named types treated as opaque leaves"""
        import copy
        v = copy.copy(self)
        v.opaque = frozenset(opaque)
        return v

    def kind(self, t):
        if t in self.opaque:
            return "opaque"
        return self.under(t)[1]["kind"]

    def int_info(self, t):
        _, e = self.under(t)
        if e["kind"] == "basic" and e["name"] in INT_TYPES:
            return INT_TYPES[e["name"]]
        return None

    def is_bool(self, t):
        _, e = self.under(t)
        return e["kind"] == "basic" and e["name"] in ("bool", "untyped bool")

    def elem(self, t):
        return self.under(t)[1]["elem"]

    def fields(self, t):
        return self.under(t)[1]["fields"]

    def field_index(self, t, name):
        for i, f in enumerate(self.fields(t)):
            if f["name"] == name:
                return i
        return None

    def array_len(self, t):
        return self.under(t)[1]["len"]

    def leaves(self, t, prefix=()):
        """list of (path, leaf type) for a value of type t; leaves are basic / ptr / slice / func."""
        if t in self.opaque:
            return [(prefix, t)]
        _, e = self.under(t)
        k = e["kind"]
        if k == "struct":
            out = []
            for i, f in enumerate(e["fields"]):
                out.extend(self.leaves(f["type"], prefix + (i,)))
            return out
        if k == "array":
            out = []
            for i in range(e["len"]):
                out.extend(self.leaves(e["elem"], prefix + (i,)))
            return out
        return [(prefix, t)]

    def subtype(self, t, path):
        for p in path:
            _, e = self.under(t)
            if e["kind"] == "struct":
                t = e["fields"][p]["type"]
            elif e["kind"] == "array":
                t = e["elem"]
            else:
                raise KeyError("path %r into %s" % (path, t))
        return t

    def path_name(self, t, path):
        s = ""
        for p in path:
            _, e = self.under(t)
            if e["kind"] == "struct":
                s += "." + e["fields"][p]["name"]
                t = e["fields"][p]["type"]
            elif e["kind"] == "array":
                s += "[%s]" % (p,)
                t = e["elem"]
        return s

    def short_type(self, t):
        return t.replace("filippo.io/edwards25519/field.", "field.").replace("filippo.io/edwards25519.", "")


def func_key(f):
    """contract key of an SSA function: (pkg, key)"""
    name = f["name"]
    pkg = f.get("pkg", "")
    key = name
    if pkg:
        key = key.replace(pkg + ".", "")
    return pkg, key


def load_program(repo="/repo", tags="verif", overlay=None, out=None):
    binp = os.path.join(ROOT, "bin", "ssajson")
    cmd = [binp, "-dir", repo, "-tags", tags]
    if overlay:
        cmd += ["-overlay", overlay]
    r = subprocess.run(cmd, capture_output=True, env=GOENV)
    if r.returncode != 0:
        raise RuntimeError("ssajson failed: " + r.stderr.decode())
    data = json.loads(r.stdout)
    return Program(data)


# ---------------------------------------------------------------- CFG helpers

def dominators(f):
    blocks = f["blocks"]
    n = len(blocks)
    dom = [set(range(n)) for _ in range(n)]
    dom[0] = {0}
    changed = True
    while changed:
        changed = False
        for b in blocks[1:]:
            i = b["idx"]
            ps = [dom[p] for p in b["preds"]]
            new = set.intersection(*ps) if ps else set()
            new = new | {i}
            if new != dom[i]:
                dom[i] = new
                changed = True
    return dom


def natural_loops(f):
    """returns list of (head, body_block_set), ordered by head block index"""
    if not f["blocks"]:
        return []
    dom = dominators(f)
    loops = {}
    for b in f["blocks"]:
        for s in b["succs"]:
            if s in dom[b["idx"]]:
                # back edge b -> s
                body = loops.setdefault(s, {s})
                stack = [b["idx"]]
                while stack:
                    x = stack.pop()
                    if x in body:
                        continue
                    body.add(x)
                    stack.extend(f["blocks"][x]["preds"])
    return sorted(loops.items())
