import json,sys
def v(x):
    if x is None: return '_'
    k=x['k']
    if k=='const':
        if x.get('nil'): return 'nil:'+x['t']
        if 'b' in x: return str(x['b'])
        if 's' in x: return repr(x['s'])
        return x['v']+':'+x['t']
    return x['n']
def pp(f):
    print('func',f['name'],[ (p['name'],p['type']) for p in f['params']],'->',f['results'], 'free',f['freevars'])
    for b in f['blocks']:
        print(' b%d: %s preds=%s succs=%s'%(b['idx'],b['comment'],b['preds'],b['succs']))
        for i in b['instrs']:
            op=i['op']; r=i.get('reg','')
            rest={k:(v(x) if isinstance(x,dict) and 'k' in x else x) for k,x in i.items() if k not in('op','reg','pos','type')}
            if 'args' in i: rest['args']=[v(a) for a in i['args']]
            if 'results' in i: rest['results']=[v(a) for a in i['results']]
            print('   %-5s = %-10s %s  : %s'%(r,op,rest,i.get('type','')))
if __name__=='__main__':
    d=json.load(open(sys.argv[1]))
    for p,pk in d['packages'].items():
        for n,f in pk['funcs'].items():
            if any(s in n for s in sys.argv[2:]): pp(f)
