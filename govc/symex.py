"""Symbolic executor over the naive-form go/ssa dump: forward execution with cut points
at loops that carry invariants, modular calls through contracts, alias partitions."""
import re
import copy
import itertools

from .terms import Poly, mk_and, mk_or, mk_not, mk_implies, mk_iff, conjuncts
from .domains import Unsupported, LiaDomain, BvDomain, type_range, bvc
from . import ssa as S


class VerifError(Exception):
    pass


ELEMENT = "filippo.io/edwards25519/field.Element"
SCALAR = "filippo.io/edwards25519.Scalar"


class Ptr:
    __slots__ = ("obj", "path")

    def __init__(self, obj, path=()):
        self.obj = obj
        self.path = tuple(path)

    def __eq__(self, o):
        return isinstance(o, Ptr) and self.obj == o.obj and self.path == o.path

    def __hash__(self):
        return hash((self.obj, self.path))

    def __repr__(self):
        return "&%s%s" % (self.obj, list(self.path))


NIL = Ptr(None)


class SliceV:
    __slots__ = ("obj", "path", "off", "len", "cap")

    def __init__(self, obj, path, off, ln, cap):
        self.obj, self.path, self.off, self.len, self.cap = obj, tuple(path), off, ln, cap

    def __eq__(self, o):
        return isinstance(o, SliceV) and (self.obj, self.path) == (o.obj, o.path) and _same(self.off, o.off) and _same(self.len, o.len) and _same(self.cap, o.cap)

    def __hash__(self):
        return hash((self.obj, self.path))

    def __repr__(self):
        return "slice(%s%s,%s,%s,%s)" % (self.obj, list(self.path), self.off, self.len, self.cap)


class Comp:
    """composite (struct / array) value"""
    __slots__ = ("kind", "elems")

    def __init__(self, kind, elems):
        self.kind = kind
        self.elems = list(elems)

    def __eq__(self, o):
        return isinstance(o, Comp) and self.elems == o.elems

    def __hash__(self):
        return hash(tuple(map(repr, self.elems)))

    def __repr__(self):
        return "%s%r" % (self.kind, self.elems)


class Iface:
    __slots__ = ("nil", "tag")

    def __init__(self, nil, tag=""):
        self.nil = nil
        self.tag = tag

    def __repr__(self):
        return "iface(nil)" if self.nil else "iface(%s)" % self.tag


class FuncV:
    def __init__(self, name, bindings=None):
        self.name = name
        self.bindings = bindings or []


class ObjInfo:
    def __init__(self, oid, ty, name, origin, lazy=False):
        self.id = oid
        self.ty = ty          # type of the object (pointee type), or elem type for lazy arrays
        self.name = name
        self.origin = origin  # 'param' | 'local' | 'global' | 'alloc' | 'result'
        self.lazy = lazy      # array of unknown length (slice backing store), cells created on demand


class Obligation:
    def __init__(self, name, kind, hyps, goal, decl, bounds, site="", descr="", mode="lia", fn="", part=""):
        self.name = name
        self.kind = kind
        self.hyps = hyps
        self.goal = goal
        self.decl = decl
        self.bounds = bounds
        self.site = site
        self.descr = descr
        self.mode = mode
        self.fn = fn
        self.part = part
        self.result = None
        self.trivial = None


class State:
    def __init__(self, run):
        self.run = run
        self.mem = {}
        self.regs = {}
        self.hyps = []
        self.decl = {}
        self.bounds = {}
        self.cache = {}
        self.block = 0
        self.prev = None
        self.pc = 0
        self.fuel = 0
        self.loopstack = []   # list of dicts(head, allowed(set of cells or None), objmark)
        self.localobj = {}    # alloc reg name -> obj id
        self.localname = {}   # source var name -> obj id (latest)
        self.dead = False
        self._hs = set()
        self._hs_len = 0
        self.entry_defs = False
        self.elem_atoms = {}  # ring atom -> None
        self.pending = {}     # ring atom havocked by the call being applied -> cell key
        self.call_mark = 0
        self.old = None       # entry-state memory of this path (shared by all forks of one entry state)
        self.resume_cut = None
        self.entry_id = 0
        self.alloc_count = {}
        self.decided = {}
        self.frames = []      # suspended callers while the body of a function without a contract is executed in line
        self.cur_f = None     # the function being executed (None: the function under verification)
        self.frame_tag = ""   # distinguishes allocation sites / call sites of in-line executed bodies

    def fork(self):
        s = State(self.run)
        s.mem = dict(self.mem)
        s.regs = dict(self.regs)
        s.hyps = list(self.hyps)
        s.decl = dict(self.decl)
        s.bounds = dict(self.bounds)
        s.cache = dict(self.cache)
        s.block, s.prev, s.pc, s.fuel = self.block, self.prev, self.pc, self.fuel
        s.loopstack = [dict(l) for l in self.loopstack]
        s.localobj = dict(self.localobj)
        s.localname = dict(self.localname)
        s._hs = set(self._hs)
        s._hs_len = self._hs_len
        s.elem_atoms = dict(self.elem_atoms)
        s.pending = dict(self.pending)
        s.call_mark = self.call_mark
        s.old = self.old
        s.resume_cut = self.resume_cut
        s.alloc_count = dict(self.alloc_count)
        s.entry_id = self.entry_id
        s.decided = dict(self.decided)
        s.frames = [dict(fr, regs=dict(fr["regs"]), localobj=dict(fr["localobj"]), localname=dict(fr["localname"])) for fr in self.frames]
        s.cur_f = self.cur_f
        s.frame_tag = self.frame_tag
        return s

    def oblige(self, kind, site, goal, descr=""):
        self.run.add_obligation(self, kind, site, goal, descr)
        if kind in ("nowrap", "conv", "ordisjoint", "andmask") and goal is not True and goal is not False:
            # assert, then assume: the exact (mathematical) value is used from here on
            for g in conjuncts(goal):
                self.hyps.append(g)

    def assume(self, f):
        if f is True:
            return
        eqs = []
        for g in conjuncts(f):
            if isinstance(g, tuple) and g and g[0] == "req" and self.pending and self.define_ring(g[1]):
                continue
            if isinstance(g, tuple) and g and g[0] == "req" and self.entry_defs and self.define_entry(g[1]):
                continue
            # not (a < b)  ==  b <= a   (integer comparisons)
            if isinstance(g, tuple) and g[0] == "not" and isinstance(g[1], tuple) and g[1][0] in ("<", "<=") and isinstance(g[1][1], Poly) and isinstance(g[1][2], Poly):
                g = ("<=", g[1][2], g[1][1]) if g[1][0] == "<" else ("<", g[1][2], g[1][1])
            self.hyps.append(g)
            before = None
            atom = self._single_atom(g)
            if atom is not None:
                before = self.bounds.get(atom)
            self.run.note_bound(self, g)
            eqs.append(g)
            if atom is not None:
                lo_hi = self.bounds.get(atom)
                if lo_hi and lo_hi != before and lo_hi[0] is not None and lo_hi[0] == lo_hi[1]:
                    # the interval collapsed to a point: the variable is that constant from here on
                    eq = ("=", Poly.atom(atom), Poly.const(lo_hi[0]))
                    self.hyps.append(eq)
                    eqs.append(eq)
        self.propagate_equalities(eqs)

    def propagate_equalities(self, gs):
        """assumed `variable == constant` facts are substituted into registers, memory and caches (one pass for
        the whole batch), so that lengths and indices fixed by the path condition become concrete"""
        env = {}
        bvenv = []
        for g in gs:
            if not isinstance(g, tuple) or g[0] != "=":
                continue
            a, b = g[1], g[2]
            if isinstance(a, Poly) and isinstance(b, Poly):
                d = a - b
                ats = [(m, c) for m, c in d.t.items() if m != ()]
                if len(ats) == 1 and len(ats[0][0]) == 1 and ats[0][1] in (1, -1):
                    env[ats[0][0][0]] = Poly.const(-d.const_val() * ats[0][1])
            elif isinstance(a, tuple) and isinstance(b, tuple):
                for x, y in ((a, b), (b, a)):
                    if x and x[0] == "bvvar" and y and y[0] == "bvconst":
                        bvenv.append((x, y))
        if not env and not bvenv:
            return
        names = set(env)

        def rep(v):
            if isinstance(v, Poly):
                if names and not names.isdisjoint(v.atoms()):
                    return v.subst(env)
                return v
            for x, y in bvenv:
                if v == x:
                    return y
            return v

        def fix(v):
            if isinstance(v, SliceV):
                return SliceV(v.obj, v.path, rep(v.off), rep(v.len), rep(v.cap))
            return rep(v)
        for k in list(self.regs):
            self.regs[k] = fix(self.regs[k])
        for k in list(self.mem):
            self.mem[k] = fix(self.mem[k])
        for k in list(self.cache):
            v = self.cache[k]
            if isinstance(v, tuple):
                self.cache[k] = tuple(fix(x) for x in v)
            else:
                self.cache[k] = fix(v)

    def propagate_equality(self, g):
        self.propagate_equalities([g])

    def _single_atom(self, g):
        if isinstance(g, tuple) and g and g[0] in ("<", "<=") and isinstance(g[1], Poly) and isinstance(g[2], Poly):
            for a, b in ((g[1], g[2]), (g[2], g[1])):
                if b.is_const() and len(a.t) == 1:
                    (m, c), = a.t.items()
                    if len(m) == 1 and c == 1:
                        return m[0]
        return None

    def define_entry(self, p):
        """at function entry: `x = E` for an input element x that nothing mentions yet simply fixes that input"""
        from .ring import RVal, RPoly
        for key, val in list(self.mem.items()):
            if not isinstance(val, RVal) or len(val.poly.t) != 1:
                continue
            (mono, c0), = val.poly.t.items()
            if c0 != 1 or len(mono) != 1 or mono[0][1] != 1:
                continue
            a = mono[0][0]
            m = ((a, 1),)
            c = p.t.get(m)
            if c not in (1, -1):
                continue
            rest = RPoly({k: v for k, v in p.t.items() if k != m})
            if a in rest.atoms():
                continue
            if any(a in ring_atoms_of(h) for h in self.hyps):
                continue
            # the atom must not occur in any other cell either
            if any(isinstance(v2, RVal) and k2 != key and a in v2.poly.atoms() for k2, v2 in self.mem.items()):
                continue
            nv = RVal(-rest if c == 1 else rest, val.inv, val.raw)
            self.mem[key] = nv
            if self.run.old_mem is not None and self.run.old_mem.get(key) is val:
                self.run.old_mem[key] = nv
            return True
        return False

    def truth(self, f):
        """True / False if the formula (or its negation) is literally among the path's hypotheses, else None"""
        if f is True or f is False:
            return f
        hs = self._hs
        if self._hs_len > len(self.hyps):
            hs = self._hs = set()
            self._hs_len = 0
        for h in self.hyps[self._hs_len:]:
            try:
                hs.add(h)
            except TypeError:
                pass
        self._hs_len = len(self.hyps)
        cs = conjuncts(f)
        try:
            if all(c in hs for c in cs):
                return True
            if len(cs) == 1 and mk_not(f) in hs:
                return False
        except TypeError:
            return None
        return None

    def define_ring(self, p):
        """p == 0 where p = +-a + rest and a is an element atom havocked by the call being applied and not
        occurring in rest: the cell simply gets the value -+rest (no hypothesis is needed)"""
        from .ring import RVal, RPoly
        for a, key in list(self.pending.items()):
            m = ((a, 1),)
            c = p.t.get(m)
            if c not in (1, -1):
                continue
            rest = RPoly({k: v for k, v in p.t.items() if k != m})
            if a in rest.atoms():
                continue
            val = -rest if c == 1 else rest
            old = self.mem.get(key)
            if not isinstance(old, RVal) or old.poly != RPoly.atom(a):
                continue
            if any(a in ring_atoms_of(h) for h in self.hyps[self.call_mark:]):
                continue
            self.mem[key] = RVal(val, old.inv, old.raw)
            del self.pending[a]
            return True
        return False

    def define_entry(self, p):
        """at function entry: `x = E` for an input element x that nothing mentions yet simply fixes that input"""
        from .ring import RVal, RPoly
        for key, val in list(self.mem.items()):
            if not isinstance(val, RVal) or len(val.poly.t) != 1:
                continue
            (mono, c0), = val.poly.t.items()
            if c0 != 1 or len(mono) != 1 or mono[0][1] != 1:
                continue
            a = mono[0][0]
            m = ((a, 1),)
            c = p.t.get(m)
            if c not in (1, -1):
                continue
            rest = RPoly({k: v for k, v in p.t.items() if k != m})
            if a in rest.atoms():
                continue
            if any(a in ring_atoms_of(h) for h in self.hyps):
                continue
            # the atom must not occur in any other cell either
            if any(isinstance(v2, RVal) and k2 != key and a in v2.poly.atoms() for k2, v2 in self.mem.items()):
                continue
            nv = RVal(-rest if c == 1 else rest, val.inv, val.raw)
            self.mem[key] = nv
            if self.run.old_mem is not None and self.run.old_mem.get(key) is val:
                self.run.old_mem[key] = nv
            return True
        return False

    def truth(self, f):
        """True / False if the formula (or its negation) is literally among the path's hypotheses, else None"""
        if f is True or f is False:
            return f
        hs = self._hs
        if self._hs_len > len(self.hyps):
            hs = self._hs = set()
            self._hs_len = 0
        for h in self.hyps[self._hs_len:]:
            try:
                hs.add(h)
            except TypeError:
                pass
        self._hs_len = len(self.hyps)
        cs = conjuncts(f)
        try:
            if all(c in hs for c in cs):
                return True
            if len(cs) == 1 and mk_not(f) in hs:
                return False
        except TypeError:
            return None
        return None

    def define_ring(self, p):
        """p == 0 where p = +-a + rest and a is an element atom havocked by the call being applied and not
        occurring in rest: the cell simply gets the value -+rest (no hypothesis is needed)"""
        from .ring import RVal, RPoly
        for a, key in list(self.pending.items()):
            m = ((a, 1),)
            c = p.t.get(m)
            if c not in (1, -1):
                continue
            rest = RPoly({k: v for k, v in p.t.items() if k != m})
            if a in rest.atoms():
                continue
            val = -rest if c == 1 else rest
            old = self.mem.get(key)
            if not isinstance(old, RVal) or old.poly != RPoly.atom(a):
                continue
            if any(a in ring_atoms_of(h) for h in self.hyps[self.call_mark:]):
                continue
            self.mem[key] = RVal(val, old.inv, old.raw)
            del self.pending[a]
            return True
        return False


class FuncRun:
    """verification of one function body under one alias partition"""

    def __init__(self, V, f, contract, partition, part_name):
        self.V = V
        self.prog = V.prog
        self.f = f
        self.c = contract
        self.partition = partition
        self.part_name = part_name
        self.mode = contract.mode
        if self.mode == "lia":
            self.dom = LiaDomain()
        elif self.mode == "bv":
            self.dom = BvDomain(int(contract.opts.get("specw", 520)))
        elif self.mode == "ring":
            from .ring import RingDomain, set_mod, P25519
            self.dom = RingDomain()
            modname = contract.opts.get("mod")
            self.ringmod = P25519
            if modname:
                from .ceval import const_value
                self.ringmod = const_value(V.contracts, modname)
            set_mod(self.ringmod)
            opq = contract.opts.get("opaque")
            self.prog = V.prog.view({SCALAR} if opq == "Scalar" else {ELEMENT})
        elif self.mode == "group":
            from .group import GroupDomain, GROUP_OPAQUE
            self.dom = GroupDomain()
            self.prog = V.prog.view(GROUP_OPAQUE)
        else:
            raise VerifError("mode %s not handled by symex" % self.mode)
        self.obligations = []
        self.counters = {}
        self.objs = {}
        self.nobj = 0
        self.loops = S.natural_loops(f)
        self.loop_heads = {h: (k + 1, body) for k, (h, body) in enumerate(self.loops)}
        self.fname = V.display_name(f)
        self.returns = 0
        self.paths = 0
        self.notes = []
        self.old_mem = None
        self.param_vals = {}
        self.global_objs = {}
        self.pre_objs = set()
        self.asm_body = None
        self.cut_seen = set()
        self.cut_done = {}
        self.cut_first = {}
        self.parked = {}
        self.sum_memo = {}
        self.split_ranges = []
        self.lazy_extra = {}
        self.lazy_vals = {}
        self.gdecl = {}
        self.gbounds = {}
        self.ghyps = []

    # ------------------------------------------------------------ objects
    def new_obj(self, ty, name, origin, lazy=False, oid=None):
        if oid is not None:
            # canonical identity (allocation site + how often the path has executed it): the same allocation
            # on different paths yields the same object, so that states can be merged at cut points
            if oid not in self.objs:
                self.objs[oid] = ObjInfo(oid, ty, name, origin, lazy)
            return oid
        self.nobj += 1
        oid = "%s#%d" % (name, self.nobj)
        self.objs[oid] = ObjInfo(oid, ty, name, origin, lazy)
        return oid

    def site_oid(self, st, base, site):
        site = st.frame_tag + str(site)
        n = st.alloc_count.get(site, 0) + 1
        st.alloc_count[site] = n
        return "%s#%s.%d" % (base, site, n)

    def int_info(self, t):
        return self.prog.int_info(t)

    def zero_value(self, st, t):
        prog = self.prog
        ii = prog.int_info(t)
        if ii:
            return self.mk_const(0, ii[0])
        if prog.is_bool(t):
            return False
        k = prog.kind(t)
        if k == "opaque" and self.mode == "group":
            from .group import GVal
            return GVal({}, wf=True, init=False, raw="ZEROVALUE:" + t)
        if k == "opaque":
            from .ring import RVal, RPoly
            return RVal(RPoly.const(0), 2, "ZERO")
        if k == "ptr":
            return NIL
        if k == "slice":
            return SliceV(None, (), 0, 0, 0)
        if k == "interface":
            return Iface(True)
        if k == "func":
            return None
        if k == "struct":
            return Comp("struct", [self.zero_value(st, f["type"]) for f in prog.fields(t)])
        if k == "array":
            return Comp("array", [self.zero_value(st, prog.elem(t)) for _ in range(prog.array_len(t))])
        raise Unsupported("zero value of %s" % t)

    def mk_const(self, n, width):
        if self.mode == "bv":
            return bvc(n, width)
        return Poly.const(n)

    def fresh_value(self, st, t, name):
        prog = self.prog
        ii = prog.int_info(t)
        if ii and ii == (8, False) and self.mode == "lia" and "bitbytes" in self.c.opts:
            # a byte as the sum of its eight bits (every byte has exactly one such representation): bit slices at
            # concrete offsets become exact linear terms, no quotient/remainder pairs are needed
            tot = Poly.const(0)
            for i in range(8):
                tot = tot + self.dom.fresh(st, "%s.bit%d" % (name, i), 8, False, 0, 1) * Poly.const(1 << i)
            return tot
        if ii:
            return self.dom.fresh(st, name, ii[0], ii[1])
        if prog.is_bool(t):
            n = self.dom.new_name(name)
            st.decl[n] = "Bool"
            return ("bvar", n)
        k = prog.kind(t)
        if k == "opaque" and self.mode == "group":
            from .group import GVal
            a = self.dom.new_name(name).replace("!", "_")
            n = self.dom.new_name("init").replace("!", "_")
            st.decl[n] = "Bool"
            return GVal({a: Poly.const(1)}, wf=False, init=("bvar", n))
        if k == "opaque":
            from .ring import RVal, RPoly
            a = self.dom.new_name(name).replace("!", "_").replace(".", "_").replace("[", "_").replace("]", "").replace("^", "p").replace("'", "n").replace("#", "_")
            rv = RVal(RPoly.atom(a), 0)
            st.elem_atoms[a] = None
            return rv
        if k == "struct":
            return Comp("struct", [self.fresh_value(st, f["type"], name + "." + f["name"]) for f in prog.fields(t)])
        if k == "array":
            return Comp("array", [self.fresh_value(st, prog.elem(t), "%s[%d]" % (name, i)) for i in range(prog.array_len(t))])
        if k == "ptr":
            # a pointer we know nothing about: fresh object
            o = self.new_obj(prog.elem(t), name, "unknown")
            self.init_obj_fresh(st, o, name)
            return Ptr(o)
        if k == "interface":
            return Iface(False, name)
        raise Unsupported("fresh value of %s" % t)

    def init_obj_fresh(self, st, oid, name):
        info = self.objs[oid]
        for path, lt in self.prog.leaves(info.ty):
            st.mem[(oid, path)] = self.fresh_value(st, lt, name + self.prog.path_name(info.ty, path))

    def init_obj_zero(self, st, oid):
        info = self.objs[oid]
        for path, lt in self.prog.leaves(info.ty):
            st.mem[(oid, path)] = self.zero_value(st, lt)

    # ------------------------------------------------------------ memory access
    def cells_under(self, oid, path):
        """leaf cells (oid, fullpath, leaftype) under a location"""
        info = self.objs[oid]
        if info.lazy:
            if len(path) == 0:
                raise Unsupported("whole lazy array as location")
            et = info.ty
            sub = self.prog.subtype(et, path[1:])
            return [(oid, path + p, lt) for p, lt in self.prog.leaves(sub)]
        sub = self.prog.subtype(info.ty, path)
        return [(oid, path + p, lt) for p, lt in self.prog.leaves(sub)]

    def loc_type(self, oid, path):
        info = self.objs[oid]
        if info.lazy:
            if len(path) == 0:
                return None
            return self.prog.subtype(info.ty, path[1:])
        return self.prog.subtype(info.ty, path)

    def read_cell(self, st, oid, path, lt):
        key = (oid, path)
        if key not in st.mem:
            info = self.objs[oid]
            if info.lazy and oid in self.pre_objs:
                # cell of a slice parameter's backing store, first touched now: one variable per cell for the
                # whole run (all paths), declared at run level, and it is also the cell's entry value
                if key not in self.lazy_vals:
                    nm = "%s%s" % (info.name, "".join("[%s]" % p for p in path))
                    tmp = State(self)
                    before = set(self.objs)
                    ali = getattr(self, "elem_alias", {}).get((info.name, path[0])) if len(path) == 1 else None
                    if ali is not None and self.prog.kind(lt) == "ptr":
                        # this element of the slice is the same pointer as parameter `ali` (alias partition)
                        pv_ = [self.param_vals[p_["name"]] for i_, p_ in enumerate(self.f["params"])
                               if (self.c.params[i_] if i_ < len(self.c.params) else p_["name"]) == ali][0]
                        self.lazy_vals[key] = pv_
                    else:
                        self.lazy_vals[key] = self.fresh_value(tmp, lt, nm)
                    self.gdecl.update(tmp.decl)
                    self.gbounds.update(tmp.bounds)
                    self.ghyps.extend(tmp.hyps)
                    # a pointer-typed cell (element of []*T): its pointee is an input object too
                    self.lazy_extra[key] = list(tmp.mem.items())
                    self.pre_objs |= set(self.objs) - before
                v = self.lazy_vals[key]
                st.mem[key] = v
                if self.old_mem is not None and key not in self.old_mem:
                    self.old_mem[key] = v
                for k2, v2 in self.lazy_extra.get(key, []):
                    if k2 not in st.mem:
                        st.mem[k2] = v2
                    if self.old_mem is not None and k2 not in self.old_mem:
                        self.old_mem[k2] = v2
            elif info.lazy:
                raise VerifError("read of unwritten cell %s%s of a fresh slice" % (oid, list(path)))
            else:
                raise VerifError("read of unmapped cell %s %s" % (oid, path))
        return st.mem[key]

    def load(self, st, ptr, t=None, site=""):
        if ptr.obj is None:
            st.oblige("nonnil", site, False, "nil dereference")
            raise PathEnd()
        path = self.resolve_path(st, ptr, site)
        if isinstance(path, list):
            # symbolic index: ite over alternatives
            return self.load_sym(st, ptr, path, site)
        t = self.loc_type(ptr.obj, path)
        return self.load_at(st, ptr.obj, path, t)

    def load_at(self, st, oid, path, t):
        k = self.prog.kind(t)
        if k == "struct":
            return Comp("struct", [self.load_at(st, oid, path + (i,), f["type"]) for i, f in enumerate(self.prog.fields(t))])
        if k == "array":
            et = self.prog.elem(t)
            return Comp("array", [self.load_at(st, oid, path + (i,), et) for i in range(self.prog.array_len(t))])
        return self.read_cell(st, oid, path, t)

    def store(self, st, ptr, val, site=""):
        if ptr.obj is None:
            st.oblige("nonnil", site, False, "nil dereference")
            raise PathEnd()
        path = self.resolve_path(st, ptr, site)
        if isinstance(path, list):
            return self.store_sym(st, ptr, path, val, site)
        t = self.loc_type(ptr.obj, path)
        self.store_at(st, ptr.obj, path, t, val, site)

    def store_at(self, st, oid, path, t, val, site):
        k = self.prog.kind(t)
        if k == "struct":
            for i, f in enumerate(self.prog.fields(t)):
                self.store_at(st, oid, path + (i,), f["type"], val.elems[i], site)
            return
        if k == "array":
            et = self.prog.elem(t)
            for i in range(self.prog.array_len(t)):
                self.store_at(st, oid, path + (i,), et, val.elems[i], site)
            return
        self.write_cell(st, oid, path, val, site)

    def write_cell(self, st, oid, path, val, site=""):
        key = (oid, path)
        info = self.objs[oid]
        if info.lazy and key not in st.mem:
            # make sure the old value exists for frame reasoning
            self.read_cell(st, oid, path, self.loc_type(oid, path))
        for L in st.loopstack:
            if L["allowed"] is not None and key not in L["allowed"] and oid in L["objmark"]:
                st.oblige("loopframe", site, False, "write to %s%s outside the loop's modifies set" % (oid, list(path)))
        if info.origin == "global" and not self.V.in_init(self.f):
            self.V.global_writes.append((self.fname, oid, path, site))
        st.mem[key] = val

    def resolve_path(self, st, ptr, site):
        """returns a concrete path tuple, or a list of (cond, path) alternatives for symbolic indices"""
        if all(isinstance(p, int) for p in ptr.path):
            return ptr.path
        # one symbolic index supported
        alts = [((), True)]
        info = self.objs[ptr.obj]
        t = info.ty
        cur = [((), True, t)]
        for n, p in enumerate(ptr.path):
            nxt = []
            for pre, cond, ty in cur:
                if info.lazy and len(pre) == 0:
                    if not isinstance(p, int):
                        raise Unsupported("symbolic index into slice backing store")
                    nxt.append((pre + (p,), cond, info.ty))
                    continue
                k = self.prog.kind(ty)
                if isinstance(p, int):
                    nt = self.prog.fields(ty)[p]["type"] if k == "struct" else self.prog.elem(ty)
                    nxt.append((pre + (p,), cond, nt))
                else:
                    ln = self.prog.array_len(ty)
                    et = self.prog.elem(ty)
                    idx, iw, isg = p
                    for i in range(ln):
                        c = self.int_cmp("==", idx, self.mk_int(i, iw), isg)
                        if c is False:
                            continue
                        nxt.append((pre + (i,), mk_and(cond, c), et))
            cur = nxt
        return [(c, p) for p, c, _ in cur]

    def load_sym(self, st, ptr, alts, site):
        t = self.loc_type(ptr.obj, alts[0][1])
        vals = [(c, self.load_at(st, ptr.obj, p, t)) for c, p in alts]
        return self.merge_vals(st, vals, t)

    def merge_vals(self, st, vals, t):
        k = self.prog.kind(t)
        if k in ("struct", "array"):
            n = len(vals[0][1].elems)
            if k == "struct":
                ts = [f["type"] for f in self.prog.fields(t)]
            else:
                ts = [self.prog.elem(t)] * n
            return Comp(k, [self.merge_vals(st, [(c, v.elems[i]) for c, v in vals], ts[i]) for i in range(n)])
        ii = self.prog.int_info(t)
        if k == "opaque" and self.mode == "group":
            from .group import GVal
            if not all(isinstance(v, GVal) and v.wf and v.init is True for _, v in vals):
                raise Unsupported("symbolic selection among point values that are not all valid")
            r = dict(vals[-1][1].lin)
            for c, v in reversed(vals[:-1]):
                out = {}
                for at in sorted(set(r) | set(v.lin)):
                    a_, b_ = v.lin.get(at, Poly.const(0)), r.get(at, Poly.const(0))
                    out[at] = a_ if a_ == b_ else self.dom.ite(st, c, a_, b_, 64, True)
                r = out
            return GVal(r, True, True)
        r = vals[-1][1]
        for c, v in reversed(vals[:-1]):
            if ii:
                r = self.dom.ite(st, c, v, r, ii[0], ii[1])
            elif self.prog.is_bool(t):
                r = mk_or(mk_and(c, v), mk_and(mk_not(c), r))
            else:
                if v != r:
                    raise Unsupported("symbolic selection between pointers")
        return r

    def store_sym(self, st, ptr, alts, val, site):
        t = self.loc_type(ptr.obj, alts[0][1])
        for c, p in alts:
            old = self.load_at(st, ptr.obj, p, t)
            new = self.merge_vals(st, [(c, val), (True, old)], t)
            self.store_at(st, ptr.obj, p, t, new, site)

    # ------------------------------------------------------------ ints
    def mk_int(self, n, width):
        return self.mk_const(n, width)

    def int_cmp(self, op, x, y, signed):
        if self.mode == "bv":
            return self.dom.cmp(op, x, y, signed)
        return self.dom.cmp(op, x, y)

    # ------------------------------------------------------------ obligations
    def add_obligation(self, st, kind, site, goal, descr):
        n = self.counters.get(kind, 0) + 1
        self.counters[kind] = n
        name = "%s#%s.%d@%s" % (self.fname, kind, n, self.part_name)
        self._add(st, name, kind, site, goal, descr)

    def add_named(self, st, kind, label, site, goal, descr):
        base = "%s#%s" % (self.fname, label)
        n = self.counters.get(base, 0) + 1
        self.counters[base] = n
        name = "%s%s@%s" % (base, "" if n == 1 else "~%d" % n, self.part_name)
        self._add(st, name, kind, site, goal, descr)

    def _add(self, st, name, kind, site, goal, descr):
        if goal is True:
            # nothing to send to a solver: do not snapshot the context
            ob = Obligation(name, kind, (), goal, {}, {}, site, descr, self.mode, self.fname, self.part_name)
            ob.run = self
            self.obligations.append(ob)
            return
        ob = Obligation(name, kind, tuple(st.hyps) + tuple(self.ghyps), goal, st.decl, st.bounds, site, descr, self.mode, self.fname, self.part_name)
        ob.decl = dict(st.decl)
        ob.decl.update(self.gdecl)
        ob.bounds = dict(st.bounds)
        ob.bounds.update(self.gbounds)
        ob.run = self
        ob.old_mem = st.old if st.old is not None else self.old_mem
        self.obligations.append(ob)

    def note_bound(self, st, g):
        """harvest atom <= const style facts into the interval table (lia only)"""
        if self.mode not in ("lia", "ring", "group") or not isinstance(g, tuple):
            return
        if g[0] in ("<=", "<") and isinstance(g[1], Poly) and isinstance(g[2], Poly):
            a, b = g[1], g[2]
            strict = 1 if g[0] == "<" else 0
            if b.is_const() and len(a.t) == 1:
                (m, c), = a.t.items()
                if len(m) == 1 and c == 1:
                    lo, hi = st.bounds.get(m[0], (None, None))
                    nh = b.const_val() - strict
                    if hi is None or nh < hi:
                        st.bounds[m[0]] = (lo if lo is not None else -(1 << 600), nh)
            if a.is_const() and len(b.t) == 1:
                (m, c), = b.t.items()
                if len(m) == 1 and c == 1:
                    lo, hi = st.bounds.get(m[0], (None, None))
                    nl = a.const_val() + strict
                    if lo is None or nl > lo:
                        st.bounds[m[0]] = (nl, hi if hi is not None else (1 << 600))
        if g[0] == "=" and isinstance(g[1], Poly) and isinstance(g[2], Poly):
            for a, b in ((g[1], g[2]), (g[2], g[1])):
                if b.is_const() and len(a.t) == 1:
                    (m, c), = a.t.items()
                    if len(m) == 1 and c == 1:
                        st.bounds[m[0]] = (b.const_val(), b.const_val())

    # ------------------------------------------------------------ running
    def run(self):
        from .ceval import Evaluator
        f = self.f
        st = State(self)
        prog = self.prog
        # parameters
        groups = {}
        self.elem_alias = {}
        for gi, grp in enumerate(self.partition):
            for p in grp:
                groups[p] = gi
                m_ = re.match(r"^(\w+)\[(\d+)\]$", p)
                if m_:
                    self.elem_alias[(m_.group(1), int(m_.group(2)))] = [q for q in grp if "[" not in q][0]
        shared = {}
        for i, p in enumerate(f["params"]):
            t = p["type"]
            k = prog.kind(t)
            nm = self.c.params[i] if i < len(self.c.params) else p["name"]
            if k == "ptr":
                gi = groups.get(p["name"])
                if gi is not None and gi in shared:
                    v = Ptr(shared[gi])
                else:
                    o = self.new_obj(prog.elem(t), nm, "param")
                    self.init_obj_fresh(st, o, nm)
                    if gi is not None:
                        shared[gi] = o
                    v = Ptr(o)
            elif k == "slice":
                o = self.new_obj(prog.elem(t), nm, "param", lazy=True)
                ln = self.dom.fresh(st, "len(%s)" % nm, 64, True, 0, (1 << 40))
                cp = self.dom.fresh(st, "cap(%s)" % nm, 64, True, 0, (1 << 40))
                st.assume(self.int_cmp("<=", ln, cp, True))
                v = SliceV(o, (), self.mk_int(0, 64), ln, cp)
            else:
                v = self.fresh_value(st, t, nm)
            self.param_vals[p["name"]] = v
            st.regs[p["name"]] = v
        # ghost field elements (universally quantified values of a contract): fresh opaque elements
        for kind, txt in self.c.other:
            if kind == "ghost":
                for gn in [x.strip() for x in txt.split(",") if x.strip()]:
                    o = self.new_obj(ELEMENT, gn, "param")
                    self.init_obj_fresh(st, o, gn)
                    self.param_vals["ghost:" + gn] = Ptr(o)
        # globals
        self.V.setup_globals(self, st)
        self.pre_objs = set(self.objs)
        self.old_mem = dict(st.mem)
        self.entry_state = st.fork()
        ev = Evaluator(self, st, self.old_mem, self.contract_env(), phase="pre", assume=True)
        for lab, ast, txt, gpkg in self.V.globalinv_for(self):
            ev.pkg = gpkg
            # an invariant is stated in one tier's vocabulary (label prefix F: ring, G: group, L: lia/bv; none: all);
            # not assuming the others is sound
            tier = (lab or "")[:2]
            if tier == "O:":
                # optional ring-tier fact (ground-checked like the others): assumed only where `opt inv=<names>` asks for it
                if self.mode != "ring" or (lab or "")[2:] not in str(self.c.opts.get("inv", "")).split(","):
                    continue
            if tier in ("F:", "G:", "L:", "X:"):
                want = {"F:": ("ring",), "G:": ("group",), "L:": ("lia", "bv", "ring", "group"), "X:": ("lia", "bv", "ring")}[tier]
                if self.mode not in want:
                    continue
                if tier in ("F:", "X:", "L:") and self.mode == "ring" and getattr(self, "ringmod", None) not in (None, 2 ** 255 - 19):
                    continue   # invariants about field elements: not in the vocabulary of the Z/l ring
            st.assume(ev.bool(ast))
        ev.pkg = self.f.get("pkg", "")
        # entry case splits (bounded parameters such as slice lengths) come first: the precondition may
        # quantify over them
        entry_states = [st]
        for kind, txt in self.c.other:
            if kind == "entrysplit":
                import re as _re
                from .cparse import parse_expr
                mset = _re.match(r"^(.*)\s+in\s+\{([-\d,\s]+)\}$", txt)
                if mset:
                    values = [int(x) for x in mset.group(2).split(",")]
                    m = mset
                    lo, hi = min(values), max(values) + 1
                else:
                    m = _re.match(r"^(.*)\s+in\s+(-?\d+)\s*\.\.\s*(-?\d+)$", txt)
                    lo, hi = int(m.group(2)), int(m.group(3))
                    values = list(range(lo, hi))
                new_states = []
                # the split must cover the precondition: proved from the requires clauses that can be evaluated
                # before the split (e.g. `len(points) < 4`)
                sb = entry_states[0].fork()
                evb = Evaluator(self, sb, dict(self.old_mem), self.contract_env(sb), phase="pre")
                for lab_, ast_, txt_ in self.c.requires:
                    try:
                        sb.assume(evb.bool(ast_))
                    except (VerifError, Unsupported):
                        pass
                eb = evb.int(parse_expr(m.group(1)))
                self.add_named(sb, "pre", "entrysplit.exhaustive", "", mk_or(*[self.dom.s_cmp("==", eb, self.dom.s_const(v_)) for v_ in values]),
                               "the entry case split %s covers the precondition" % txt)
                for s0 in entry_states:
                    from .ceval import MInt
                    ev0 = Evaluator(self, s0, self.old_mem, self.contract_env(s0), phase="pre")
                    raw = ev0.ev(parse_expr(m.group(1)), False)
                    e = ev0.as_int(raw)
                    self.split_ranges.append((m.group(1), lo, hi))
                    for k_ in values:
                        s2 = s0.fork()
                        if isinstance(raw, MInt):
                            # at machine width, so that the equality can be substituted into the state
                            s2.assume(self.int_cmp("==", raw.v, self.mk_int(k_, raw.w), raw.s))
                        else:
                            s2.assume(self.dom.s_cmp("==", e, self.dom.s_const(k_)))
                        new_states.append(s2)
                entry_states = new_states
        first = True
        for s0 in entry_states:
            ev = Evaluator(self, s0, self.old_mem, self.contract_env(s0), phase="pre", assume=True)
            ev.pkg = self.f.get("pkg", "")
            s0.entry_defs = self.mode == "ring" and "entrydefs" in self.c.opts
            for lab, ast, txt in self.c.requires:
                s0.assume(ev.bool(ast))
            s0.entry_defs = False
            for lab, ast, txt in self.c.lemmas:
                g = ev.bool(ast)
                if first:
                    self.add_named(s0, "lemma", "lemma.%s" % (lab or "nia"), "", g, txt)
                    self.obligations[-1].nia = True
                s0.assume(g)
            for kind, txt in self.c.other:
                if kind == "assume":
                    from .cparse import parse_expr, split_label
                    lab, e = split_label(txt)
                    s0.assume(ev.bool(parse_expr(e)))
                    self.V.assumed.add((self.fname, lab or "", e))
            s0.old = dict(s0.mem)
            s0.entry_id = entry_states.index(s0)
            if first:
                self.old_mem = s0.old
            first = False
        st = entry_states[0] if entry_states else st
        self.entry_hyps = list(st.hyps)
        # vacuity cover of the precondition
        for s0 in entry_states[:1]:
            self.add_named(s0, "cover", "cover.requires", "", "COVER", "precondition is satisfiable")
        if self.f.get("lemma"):
            self.at_return(st, [], {"pos": "lemma"})
            self.paths += 1
            return self.obligations
        if self.asm_body is not None:
            from .asm import AsmExec
            try:
                AsmExec(self, st, self.asm_body, self.fname).run_body()
                self.at_return(st, [], {"pos": "fe_amd64.s"})
            except PathEnd:
                pass
            self.paths += 1
            return self.obligations
        work = list(reversed(entry_states))
        self.work = work
        while True:
            while work:
                s = work.pop()
                if s.old is not None:
                    self.old_mem = s.old
                try:
                    self.exec_path(s, work)
                except PathEnd:
                    pass
                self.paths += 1
            nxt = self.release_parked()
            if nxt is None:
                break
            work.append(nxt)
        return self.obligations

    def contract_env(self, st=None):
        from .ceval import wrap_typed
        env = {}
        for i, p in enumerate(self.f["params"]):
            nm = self.c.params[i] if i < len(self.c.params) else p["name"]
            pv = self.param_vals[p["name"]]
            if st is not None and isinstance(pv, SliceV) and isinstance(st.regs.get(p["name"]), SliceV):
                pv = st.regs[p["name"]]   # lengths fixed by the path condition are concrete here
            elif st is not None and self.prog.int_info(p["type"]) and p["name"] in st.regs:
                pv = st.regs[p["name"]]   # an integer parameter fixed by an entry case split
            v = wrap_typed(self.prog, pv, p["type"])
            env[nm] = v
            env[p["name"]] = v
        for k_, v_ in self.param_vals.items():
            if k_.startswith("ghost:"):
                env[k_[6:]] = v_
        return env

    def push_frame(self, st, callee, args, ins):
        """execute the body of a function that has no contract in line (a helper introduced by a refactoring):
        the caller is suspended, the callee's parameters are bound to the arguments; loops of the callee must
        unroll (there is no contract to carry an invariant)"""
        if len(st.frames) >= 6 or any(fr["callee"] == callee["name"] for fr in st.frames):
            raise Unsupported("recursive or too deep in-line execution of %s" % callee["name"])
        if not callee.get("hasBody") or not callee.get("blocks"):
            raise Unsupported("call of %s, which has neither a contract nor a body" % callee["name"])
        st.frames.append({"f": st.cur_f, "block": st.block, "prev": st.prev, "pc": st.pc, "regs": st.regs,
                          "localobj": st.localobj, "localname": st.localname, "ins": ins, "tag": st.frame_tag,
                          "callee": callee["name"]})
        st.cur_f = callee
        st.frame_tag = st.frame_tag + "%s@%s/" % (callee["short"], ins.get("reg"))
        st.regs = {}
        for p, a in zip(callee["params"], args):
            st.regs[p["name"]] = a
        st.localobj = {}
        st.localname = {}
        st.block, st.prev, st.pc = 0, None, 0
        self.V.inlined.add((self.fname, callee["name"]))

    def pop_frame(self, st, vals):
        fr = st.frames.pop()
        st.cur_f = fr["f"]
        st.frame_tag = fr["tag"]
        st.regs = fr["regs"]
        st.localobj = fr["localobj"]
        st.localname = fr["localname"]
        st.block, st.prev, st.pc = fr["block"], fr["prev"], fr["pc"]
        reg = fr["ins"].get("reg")
        if reg:
            st.regs[reg] = None if not vals else vals[0] if len(vals) == 1 else tuple(vals)

    def exec_path(self, st, work):
        while True:
            f = st.cur_f or self.f
            blocks = f["blocks"]
            b = blocks[st.block]
            if st.pc == 0 and not st.frames and st.block in self.loop_heads:
                self.at_loop_head(st)
            depth = len(st.frames)
            while st.pc < len(b["instrs"]):
                if len(st.frames) != depth:
                    break   # a call entered a body in line: continue there
                ins = b["instrs"][st.pc]
                st.pc += 1
                st.fuel += 1
                if st.fuel > 400000:
                    raise VerifError("%s: out of fuel (loop without invariant?)" % self.fname)
                op = ins["op"]
                if op == "If":
                    c = self.val(st, ins["cond"])
                    t, e = b["succs"]
                    if c is True:
                        self.goto(st, t)
                    elif c is False:
                        self.goto(st, e)
                    else:
                        s2 = st.fork()
                        s2.assume(mk_not(c))
                        self.goto(s2, e)
                        work.append(s2)
                        st.assume(c)
                        self.goto(st, t)
                    break
                if op == "Jump":
                    self.goto(st, b["succs"][0])
                    break
                if op == "Return":
                    if st.frames:
                        self.pop_frame(st, [self.val(st, r) for r in ins["results"]])
                        break
                    self.at_return(st, [self.val(st, r) for r in ins["results"]], ins)
                    return
                if op == "Panic":
                    self.at_panic(st, ins)
                    return
                self.step(st, ins)
            else:
                if len(st.frames) == depth:
                    raise VerifError("fell off block %d" % st.block)

    def goto(self, st, target):
        st.prev = st.block
        st.block = target
        st.pc = 0

    # ------------------------------------------------------------ loops
    def at_loop_head(self, st):
        from .ceval import Evaluator
        k, body = self.loop_heads[st.block]
        L = self.c.loops.get(k)
        if not L or not L["invariant"]:
            return   # executed by unrolling; all guards must fold to constants
        if L["opts"].get("cut"):
            return self.at_loop_cut(st, k, body, L)
        head = st.block
        from_inside = st.prev in body
        active = [x for x in st.loopstack if x["head"] == head]
        env = self.loop_env(st, k)
        if from_inside and active:
            ev = Evaluator(self, st, self.old_mem, env, phase="inv")
            for lab, ast, txt in L["invariant"]:
                self.add_named(st, "loop", "loop%d.preserve.%s" % (k, lab or "inv"), "", ev.bool(ast), txt)
            if L["decreases"] is not None:
                d0 = active[-1]["dec"]
                d1 = ev.int(L["decreases"])
                self.add_named(st, "loop", "loop%d.decreases" % k, "", mk_and(self.dom.s_cmp("<", d1, d0), self.dom.s_cmp("<=", self.dom.s_const(0), d0)), "variant decreases and is bounded")
            raise PathEnd()
        # entry
        ev = Evaluator(self, st, self.old_mem, env, phase="inv")
        for lab, ast, txt in L["invariant"]:
            self.add_named(st, "loop", "loop%d.init.%s" % (k, lab or "inv"), "", ev.bool(ast), txt)
        # havoc
        allowed = set()
        f = self.f
        for bi in body:
            for ins in f["blocks"][bi]["instrs"]:
                if ins["op"] == "Store" and ins["addr"]["k"] == "reg" and ins["addr"]["n"] in st.localobj:
                    o = st.localobj[ins["addr"]["n"]]
                    for c in self.cells_under(o, ()):
                        allowed.add((c[0], c[1]))
        for ast in L["modifies"]:
            for c in ev.loc_cells(ast):
                allowed.add((c[0], c[1]))
        for (o, p) in sorted(allowed, key=repr):
            if (o, p) in st.mem or self.objs[o].lazy:
                lt = self.loc_type(o, p)
                st.mem[(o, p)] = self.fresh_value(st, lt, "%s%s'" % (self.objs[o].name, self.prog.path_name(self.objs[o].ty, p) if not self.objs[o].lazy else str(list(p))))
        env = self.loop_env(st, k)
        ev = Evaluator(self, st, self.old_mem, env, phase="inv", assume=True)
        ev.havocked = set(allowed)
        for lab, ast, txt in L["invariant"]:
            st.assume(ev.bool(ast))
        dec = ev.int(L["decreases"]) if L["decreases"] is not None else None
        st.loopstack.append({"head": head, "allowed": allowed, "objmark": set(self.objs), "dec": dec})

    def at_loop_cut(self, st, k, body, L):
        """Cut point per iteration of a loop whose counter is concrete on every path.  Every path that arrives at
        the loop head proves the invariant and is parked.  When no other path is runnable, the parked paths of one
        (head, counter) group are merged: hypotheses common to all of them are kept, cells on which they agree
        are kept, the loop's modified cells are havocked and constrained by the invariant.  Branches inside the
        body therefore do not multiply across iterations, and nothing path-specific survives the cut."""
        from .ceval import Evaluator
        head = st.block
        env = self.loop_env(st, k)
        ev = Evaluator(self, st, self.old_mem, env, phase="inv")
        cv = ev.conc(ev.ev(("id", L["var"]), False))
        key = (head, cv, st.entry_id)
        if st.resume_cut == key:
            st.resume_cut = None
            return   # the merged continuation of this very cut: run the iteration
        for lab, ast, txt in L["invariant"]:
            self.add_named(st, "loop", "loop%d@%s=%s.%s" % (k, L["var"], cv, lab or "inv"), "", ev.bool(ast), txt)
        if key in self.cut_done:
            # a late arrival: sound only if the merged continuation did not assume anything this path lacks
            kept = self.cut_done[key]
            hs = set()
            for h in st.hyps:
                try:
                    hs.add(h)
                except TypeError:
                    pass
            if not all(h in hs for h in kept):
                raise VerifError("%s: a path reached cut %s of loop %d after the cut had been merged" % (self.fname, cv, k))
            # ... and did not keep a cell value this path does not have
            for ck, v0 in getattr(self, "cut_mem", {}).get(key, {}).items():
                if not _same(st.mem.get(ck, _MISSING), v0):
                    raise VerifError("%s: a path reached cut %s of loop %d after the cut had been merged, with a different %s%s" % (self.fname, cv, k, ck[0], list(ck[1])))
            raise PathEnd()
        self.cut_first.setdefault((head, st.entry_id), cv)
        self.parked.setdefault(key, []).append((st, k, body))
        raise PathEnd()

    def release_parked(self):
        """merge one parked group and return the continuation state (None if nothing is parked)"""
        from .ceval import Evaluator
        if not self.parked:
            return None
        # iteration order: the group whose counter is closest to the first counter ever seen at that head
        def dist(k_):
            first = self.cut_first.setdefault((k_[0], k_[2]), k_[1])
            return abs(k_[1] - first)
        key = min(self.parked, key=dist)
        group = self.parked.pop(key)
        head, cv, _eid = key
        states = [g[0] for g in group]
        st0, k, body = group[0]
        L = self.c.loops[k]
        st = st0.fork()
        # hypotheses common to all arrivals, in the order of the first
        common = None
        for s_ in states:
            hs = set()
            for h in s_.hyps:
                try:
                    hs.add(h)
                except TypeError:
                    pass
            common = hs if common is None else (common & hs)
        st.hyps = [h for h in st0.hyps if _hashable(h) and h in common]
        st._hs = set()
        st._hs_len = 0
        self.cut_done[key] = list(st.hyps)
        # interval facts and caches that all arrivals share
        st.bounds = {a: b for a, b in st0.bounds.items() if all(s_.bounds.get(a) == b for s_ in states[1:])}
        st.cache = {a: b for a, b in st0.cache.items() if all(_same(s_.cache.get(a), b) for s_ in states[1:])}
        st.loopstack = []
        st.block, st.prev, st.pc = head, st0.prev, 0
        env = self.loop_env(st, k)
        ev = Evaluator(self, st, self.old_mem, env, phase="inv")
        allowed = set()
        for bi in body:
            for ins in self.f["blocks"][bi]["instrs"]:
                if ins["op"] == "Store" and ins["addr"]["k"] == "reg" and ins["addr"]["n"] in st.localobj:
                    o = st.localobj[ins["addr"]["n"]]
                    if o in self.objs:
                        for c in self.cells_under(o, ()):
                            allowed.add((c[0], c[1]))
        for ast in L["modifies"]:
            for c in ev.loc_cells(ast):
                allowed.add((c[0], c[1]))
        keep = set()
        for nm in [L["var"]] + [x for x in str(L["opts"].get("keep", "")).split(",") if x]:
            if nm in st.localname:
                for c in self.cells_under(st.localname[nm], ()):
                    keep.add((c[0], c[1]))
        # locals declared inside the loop body are re-allocated by every iteration and dead at the head
        body_allocs = set()
        for bi in body:
            for ins in self.f["blocks"][bi]["instrs"]:
                if ins["op"] == "Alloc":
                    body_allocs.add(ins["reg"])
        for r_ in body_allocs:
            st.alloc_count[r_] = 0

        def dead(oid):
            for r_ in body_allocs:
                if ("#%s." % r_) in oid:
                    return True
            return False
        newmem = {}
        kept_same = set()
        for ck, v0 in st0.mem.items():
            if dead(ck[0]):
                continue
            same = all(_same(s_.mem.get(ck, _MISSING), v0) for s_ in states[1:])
            if same:
                # every arrival holds the same value: the merged state holds it too (a cut is merged once, after all
                # of its arrivals are parked -- nothing is generalised over iterations)
                newmem[ck] = v0
                kept_same.add(ck)
            elif ck in allowed:
                lt = self.loc_type(ck[0], ck[1])
                info = self.objs[ck[0]]
                newmem[ck] = self.fresh_value(st, lt, "%s%s@%s" % (info.name, self.prog.path_name(info.ty, ck[1]) if not info.lazy else str(list(ck[1])), cv))
            elif self._general_value(ck, states) is not None:
                # the arrivals differ only because some of them learnt `cell == constant` on their branch
                newmem[ck] = self._general_value(ck, states)
            elif ck[0] in self.pre_objs or any(ck in s_.mem for s_ in states[1:]):
                raise VerifError("%s: loop %d changes %s%s which is not in its `modifies` clause" % (self.fname, k, ck[0], list(ck[1])))
        st.mem = newmem
        if not hasattr(self, "cut_mem"):
            self.cut_mem = {}
        # cells the continuation keeps although the loop may modify them (all arrivals agreed): a late arrival must agree too
        self.cut_mem[key] = {ck: newmem[ck] for ck in kept_same if ck in allowed}
        ev = Evaluator(self, st, self.old_mem, self.loop_env(st, k), phase="inv", assume=True)
        ev.havocked = set(allowed) - keep
        for lab, ast, txt in L["invariant"]:
            st.assume(ev.bool(ast))
        st.resume_cut = key
        return st

    def _general_value(self, ck, states):
        vals = [s_.mem.get(ck, _MISSING) for s_ in states]
        if any(v is _MISSING for v in vals):
            return None
        gen = [v for v in vals if self.dom.concrete(v) is None] if all(isinstance(v, (Poly, tuple, int)) for v in vals) else None
        if not gen:
            return None
        g0 = gen[0]
        if all(_same(v, g0) for v in gen):
            return g0
        return None

    def loop_env(self, st, k):
        env = dict(self.contract_env(st))
        return env

    # ------------------------------------------------------------ return / panic
    def at_return(self, st, results, ins):
        from .ceval import Evaluator
        self.returns += 1
        from .ceval import wrap_typed
        env = dict(self.contract_env(st))
        rts = self.f["results"]
        if len(results) == 1:
            env["result"] = wrap_typed(self.prog, results[0], rts[0])
        for i, r in enumerate(results):
            env["result%d" % i] = wrap_typed(self.prog, r, rts[i])
        ev = Evaluator(self, st, self.old_mem, env, phase="post", assigned=self.assigned_names())
        rn = self.returns
        # exceptional postcondition, converse direction: a normal return happens only if no `panics` condition held
        pan = [o for o in self.c.other if o[0] == "panics"]
        if pan:
            from .cparse import parse_expr, split_label
            evp = Evaluator(self, self.entry_state_for_eval(st), self.old_mem, self.contract_env(st), phase="pre")
            cond = False
            for _, txt in pan:
                lab, e = split_label(txt)
                cond = mk_or(cond, evp.bool(parse_expr(e)))
            self.add_named(st, "panic", "panics.required", ins.get("pos", ""), mk_not(cond), "a normal return happens only when no declared panic condition holds")
        # instances of proved lemmas requested by the contract (`use name(args)`)
        for kind, txt in self.c.other:
            if kind == "use":
                st.assume(self.lemma_instance(ev, txt))
            if kind == "atoms":
                # proof hint: names a ring equality so that the case analysis of the theory solver can split on it
                # (adds the tautology  e or not e  -- no logical content)
                from .cparse import parse_expr
                try:
                    b_ = ev.bool(parse_expr(txt))
                    if b_ is not True and b_ is not False:
                        st.hyps.append(("or", b_, mk_not(b_)))
                except (VerifError, KeyError):
                    pass
            if kind == "assumebody":
                # an instance of a named mathematical fact over values of the body (listed as assumed in the evidence);
                # skipped on paths where a local it names does not exist
                from .cparse import parse_expr, split_label
                lab, e = split_label(txt)
                try:
                    h = ev.bool(parse_expr(e))
                except (VerifError, KeyError):
                    h = True
                st.assume(h)
                self.V.assumed.add((self.fname, lab or "", e))
        st_cover = st   # reachability is judged before any postcondition is chained in as a hypothesis
        chain = self.mode in ("ring", "group") or "chainposts" in self.c.opts
        for i, (lab, ast, txt) in enumerate(list(self.c.ensures_body) + list(self.c.ensures)):
            g = ev.bool(ast)
            self.add_named(st, "post", "post.%s" % (lab or str(i + 1)), ins.get("pos", ""), g, txt)
            if chain and g is not True:
                # each postcondition is proved on its own; later ones may rely on the earlier ones
                st = st.fork()
                st.hyps.append(g)
                ev.st = st
        # frame
        allowed = self.assign_cells(ev)
        bad = []
        for key, old in self.old_mem.items():
            if key in allowed:
                continue
            if key not in st.mem:
                continue   # a lazily created input cell this path never touched
            cur = st.mem.get(key)
            if cur is old or cur == old:
                continue
            info = self.objs[key[0]]
            lt = self.loc_type(key[0], key[1])
            ii = self.prog.int_info(lt)
            if ii:
                g = self.int_cmp("==", cur, old, ii[1])
            else:
                g = False
            bad.append((key, g))
        if bad:
            for key, g in bad:
                self.add_named(st, "frame", "frame.%s%s" % (self.objs[key[0]].name, self.prog.path_name(self.objs[key[0]].ty, key[1]) if not self.objs[key[0]].lazy else str(list(key[1]))), ins.get("pos", ""), g, "location outside `assigns` keeps its value")
        else:
            self.add_named(st, "frame", "frame", ins.get("pos", ""), True, "every location outside `assigns` is syntactically unchanged")
        self.add_named(st_cover, "cover", "cover.return", ins.get("pos", ""), "COVER", "this return is reachable")

    def lemma_instance(self, ev, txt):
        import re as _re
        from .cparse import parse_expr
        m = _re.match(r"^([A-Za-z_0-9]+)\s*\((.*)\)$", txt.strip())
        if not m or m.group(1) not in self.V.contracts.lemmas:
            raise VerifError("unknown lemma in `use %s`" % txt)
        L = self.V.contracts.lemmas[m.group(1)]
        from .cparse import split_top
        args = [parse_expr(a) for a in split_top(m.group(2))]
        if len(args) != len(L["params"]):
            raise VerifError("arity of lemma %s" % m.group(1))
        saved = {}
        for (pn, _), a in zip(L["params"], args):
            saved[pn] = ev.bound.get(pn)
            ev.bound[pn] = ev.ev(a, False)
        try:
            f = ev.bool(L["ast"])
        finally:
            for pn, v in saved.items():
                if v is None:
                    ev.bound.pop(pn, None)
                else:
                    ev.bound[pn] = v
        self.V.lemmas_used.add(m.group(1))
        return f

    def assigned_names(self):
        names = set()
        for a in (self.c.assigns or []):
            n = a
            while n[0] in ("deref", "field", "index", "slice"):
                n = n[1]
            if n[0] == "id":
                names.add(n[1])
        return names

    def assign_cells(self, ev):
        cells = set()
        for a in (self.c.assigns or []):
            for c in ev.loc_cells(a):
                cells.add((c[0], c[1]))
        return cells

    def at_panic(self, st, ins):
        from .ceval import Evaluator
        pan = [o for o in self.c.other if o[0] == "panics"]
        if pan:
            from .cparse import parse_expr, split_label
            ev = Evaluator(self, self.entry_state_for_eval(st), self.old_mem, self.contract_env(st), phase="pre")
            goal = False
            for _, txt in pan:
                lab, e = split_label(txt)
                goal = mk_or(goal, ev.bool(parse_expr(e)))
            self.add_named(st, "panic", "panics.allowed", ins.get("pos", ""), goal, "a panic happens only under the declared condition")
        else:
            self.add_named(st, "panic", "nopanic", ins.get("pos", ""), False, "panic is unreachable")

    def entry_state_for_eval(self, st):
        s = st.fork()
        s.mem = dict(self.old_mem)
        s.hyps = st.hyps
        s.decl = st.decl
        s.bounds = st.bounds
        return s

    # ------------------------------------------------------------ instructions
    def val(self, st, v):
        if v is None:
            return None
        k = v["k"]
        if k in ("reg", "param"):
            return st.regs[v["n"]]
        if k == "const":
            t = v["t"]
            if v.get("nil"):
                kk = self.prog.kind(t)
                if kk == "ptr":
                    return NIL
                if kk == "slice":
                    return SliceV(None, (), 0, 0, 0)
                if kk == "interface":
                    return Iface(True)
                return None
            if "b" in v:
                return v["b"]
            if "s" in v:
                return ("str", v["s"])
            ii = self.prog.int_info(t)
            if ii:
                return self.mk_int(int(v["v"]), ii[0])
            raise Unsupported("constant of type %s" % t)
        if k == "global":
            return self.V.global_ptr(self, st, v["n"], v.get("t"))
        if k == "func":
            return FuncV(v["n"])
        if k == "builtin":
            return FuncV("builtin:" + v["n"])
        if k == "freevar":
            return st.regs["free:" + v["n"]]
        raise Unsupported("value kind %s" % k)

    def step(self, st, ins):
        op = ins["op"]
        prog = self.prog
        reg = ins.get("reg")
        site = ins.get("pos", "")
        if op == "Alloc":
            t = prog.elem(ins["type"])
            o = self.new_obj(t, ins["comment"] or reg, "local" if not ins["heap"] else "alloc", oid=self.site_oid(st, ins["comment"] or reg, reg))
            self.init_obj_zero(st, o)
            st.regs[reg] = Ptr(o)
            st.localobj[reg] = o
            if ins["comment"]:
                st.localname[ins["comment"]] = o
            return
        if op == "Store":
            self.store(st, self.val(st, ins["addr"]), self.val(st, ins["val"]), site)
            return
        if op == "UnOp":
            x = self.val(st, ins["x"])
            u = ins["unop"]
            if u == "*":
                st.regs[reg] = self.load(st, x, None, site)
                return
            t = ins["type"]
            if u == "!":
                st.regs[reg] = mk_not(x)
                return
            ii = prog.int_info(t)
            st.regs[reg] = self.dom.unop(st, u, x, ii[0], ii[1], site)
            return
        if op == "BinOp":
            self.binop(st, ins)
            return
        if op == "FieldAddr":
            p = self.val(st, ins["x"])
            st.regs[reg] = Ptr(p.obj, p.path + (ins["field"],))
            return
        if op == "Field":
            x = self.val(st, ins["x"])
            st.regs[reg] = x.elems[ins["field"]]
            return
        if op == "IndexAddr":
            self.index_addr(st, ins)
            return
        if op == "Index":
            x = self.val(st, ins["x"])
            i = self.val(st, ins["index"])
            ci = self.dom.concrete(i)
            if ci is None:
                raise Unsupported("Index of array value with symbolic index")
            st.regs[reg] = x.elems[ci]
            return
        if op in ("ChangeType",):
            st.regs[reg] = self.val(st, ins["x"])
            return
        if op == "Convert":
            x = self.val(st, ins["x"])
            ft, tt = ins["x"]["t"], ins["type"]
            fi, ti = prog.int_info(ft), prog.int_info(tt)
            if fi and ti:
                st.regs[reg] = self.dom.convert(st, x, fi[0], fi[1], ti[0], ti[1], site)
                return
            if prog.kind(ft) == prog.kind(tt) and prog.kind(ft) in ("ptr", "slice"):
                st.regs[reg] = x
                return
            raise Unsupported("Convert %s -> %s" % (ft, tt))
        if op == "Extract":
            st.regs[reg] = self.val(st, ins["x"])[ins["index"]]
            return
        if op == "Slice":
            self.slice_op(st, ins)
            return
        if op == "SliceToArrayPointer":
            x = self.val(st, ins["x"])
            n = prog.array_len(prog.elem(ins["type"]))
            st.oblige("bounds", site, self.int_cmp(">=", x.len, self.mk_int(n, 64), True), "slice long enough for array pointer conversion")
            st.regs[reg] = self.slice_as_array_ptr(st, x, n)
            return
        if op == "MakeInterface":
            st.regs[reg] = Iface(False, "val")
            return
        if op == "MakeSlice":
            ln = self.val(st, ins["len"])
            cl = self.dom.concrete(ln)
            if cl is None:
                raise Unsupported("make with symbolic length")
            et = prog.elem(ins["type"])
            o = self.new_obj(et, reg, "alloc", lazy=True, oid=self.site_oid(st, "make", reg))
            for i in range(cl):
                for p, lt in prog.leaves(et):
                    st.mem[(o, (i,) + p)] = self.zero_value(st, lt)
            st.regs[reg] = SliceV(o, (), self.mk_int(0, 64), self.mk_int(cl, 64), self.mk_int(cl, 64))
            return
        if op == "Call":
            from .calls import do_call
            do_call(self, st, ins)
            return
        if op == "RunDefers":
            return
        if op == "MakeClosure":
            st.regs[reg] = FuncV(ins["fn"]["n"], [self.val(st, b) for b in ins["bindings"]])
            return
        if op == "Phi":
            blk = (st.cur_f or self.f)["blocks"][st.block]
            idx = blk["preds"].index(st.prev)
            st.regs[reg] = self.val(st, ins["edges"][idx])
            return
        raise Unsupported("instruction %s (%s)" % (op, ins.get("text", "")))

    def slice_as_array_ptr(self, st, x, n):
        off = self.dom.concrete(x.off)
        if off is None:
            raise Unsupported("array pointer from slice with symbolic offset")
        info = self.objs[x.obj]
        if info.lazy:
            # view: array object aliasing cells (obj, (off+i,)) -- represent as pointer with a window marker
            return Ptr(x.obj, x.path + (("win", off, n),)) if False else self.window_ptr(st, x, off, n)
        if off == 0 and self.prog.kind(self.loc_type(x.obj, x.path)) == "array" and self.prog.array_len(self.loc_type(x.obj, x.path)) == n:
            return Ptr(x.obj, x.path)
        raise Unsupported("array pointer into the middle of an array")

    def window_ptr(self, st, x, off, n):
        if off != 0:
            raise Unsupported("array pointer window at non-zero offset")
        # lazy objects are indexed by a leading int; a *[n]T view of it is the same cells: treat obj as array directly
        return Ptr(x.obj, x.path)

    def binop(self, st, ins):
        prog = self.prog
        op = ins["binop"]
        x = self.val(st, ins["x"])
        y = self.val(st, ins["y"])
        xt = ins["x"]["t"]
        reg = ins["reg"]
        site = ins.get("pos", "")
        ii = prog.int_info(xt)
        if op in ("==", "!=", "<", "<=", ">", ">="):
            if ii:
                st.regs[reg] = self.int_cmp(op, x, y, ii[1])
                return
            r = self.generic_eq(st, x, y, xt)
            st.regs[reg] = r if op == "==" else mk_not(r)
            return
        if prog.is_bool(xt):
            if op == "&&" or op == "&":
                st.regs[reg] = mk_and(x, y)
            elif op == "||" or op == "|":
                st.regs[reg] = mk_or(x, y)
            else:
                raise Unsupported("bool op %s" % op)
            return
        if not ii:
            raise Unsupported("binop %s on %s" % (op, xt))
        if op in ("/", "%"):
            cx, cy = self.sconc(x, ii), self.sconc(y, ii)
            if cx is not None and cy is not None:
                if cy == 0:
                    st.oblige("nopanic", site, False, "division by zero")
                    raise PathEnd()
                q = abs(cx) // abs(cy)
                if (cx < 0) != (cy < 0):
                    q = -q
                r = cx - q * cy
                st.regs[reg] = self.mk_int(q if op == "/" else r, ii[0])
                return
            if cy is not None and cy > 0 and not ii[1]:
                pass
        if self.mode == "bv":
            yi = prog.int_info(ins["y"]["t"])
            st.regs[reg] = self.dom.binop(st, op, x, y, ii[0], ii[1], site)
        else:
            st.regs[reg] = self.dom.binop(st, op, x, y, ii[0], ii[1], site)

    def generic_eq(self, st, x, y, t):
        prog = self.prog
        k = prog.kind(t)
        if k in ("struct", "array"):
            if k == "struct":
                ts = [f["type"] for f in prog.fields(t)]
            else:
                ts = [prog.elem(t)] * prog.array_len(t)
            return mk_and(*[self.generic_eq(st, a, b, tt) for a, b, tt in zip(x.elems, y.elems, ts)])
        ii = prog.int_info(t)
        if ii:
            return self.int_cmp("==", x, y, ii[1])
        if prog.is_bool(t):
            return mk_iff(x, y)
        if k == "opaque" and self.mode == "group":
            raise Unsupported("comparison of point values in group mode")
        if k == "opaque":
            return self.limbs_equal(st, x, y)
        if k == "ptr":
            return x == y
        if k == "interface":
            if isinstance(x, Iface) and isinstance(y, Iface):
                if x.nil or y.nil:
                    return x.nil == y.nil
            raise Unsupported("interface comparison")
        if k == "func":
            return True
        raise Unsupported("== on %s" % t)

    def limbs_equal(self, st, x, y):
        """limb-wise equality of two Element values (ring mode): an uninterpreted boolean per pair of
        limb-vector identities; equal limbs imply equal field values"""
        from .ring import req
        if x.raw == y.raw:
            return True
        a, b = sorted([x.raw, y.raw])
        n = "leq!%s!%s" % (a, b)
        if n not in st.decl:
            st.decl[n] = "Bool"
            st.hyps.append(mk_implies(("bvar", n), req(x.poly - y.poly)))
        return ("bvar", n)

    def index_addr(self, st, ins):
        prog = self.prog
        x = self.val(st, ins["x"])
        i = self.val(st, ins["index"])
        it = ins["index"]["t"]
        ii = prog.int_info(it)
        site = ins.get("pos", "")
        reg = ins["reg"]
        ci = self.dom.concrete(i)
        if ci is not None and ii[1] and ci >= (1 << (ii[0] - 1)) and self.mode == "bv":
            ci -= 1 << ii[0]
        if isinstance(x, SliceV):
            if x.obj is None:
                st.oblige("bounds", site, False, "index into nil slice")
                raise PathEnd()
            inb = mk_and(self.int_cmp("<=", self.mk_int(0, ii[0]), i, ii[1]), self.int_cmp("<", self.widen(i, ii), x.len, True))
            if inb is not True:
                st.oblige("bounds", site, inb, "slice index in range")
            off = self.dom.concrete(x.off)
            if ci is None or off is None:
                raise Unsupported("symbolic slice index")
            st.regs[reg] = Ptr(x.obj, x.path + (off + ci,))
            return
        # pointer to array
        t = prog.elem(ins["x"]["t"])
        n = prog.array_len(t)
        if ci is not None:
            if not (0 <= ci < n):
                st.oblige("bounds", site, False, "array index %d out of range [0,%d)" % (ci, n))
                raise PathEnd()
            st.regs[reg] = Ptr(x.obj, x.path + (ci,))
            return
        inb = mk_and(self.int_cmp("<=", self.mk_int(0, ii[0]), i, ii[1]), self.int_cmp("<", i, self.mk_int(n, ii[0]), ii[1]))
        st.oblige("bounds", site, inb, "array index in range [0,%d)" % n)
        st.assume(inb)
        st.regs[reg] = Ptr(x.obj, x.path + ((i, ii[0], ii[1]),))

    def sconc(self, x, ii):
        c = self.dom.concrete(x)
        if c is None:
            return None
        if self.mode == "bv" and ii[1] and c >= (1 << (ii[0] - 1)):
            c -= 1 << ii[0]
        return c

    def widen(self, i, ii):
        if self.mode == "bv":
            return self.dom.resize(i, 64, ii[1])
        return i

    def slice_op(self, st, ins):
        prog = self.prog
        x = self.val(st, ins["x"])
        lo = self.val(st, ins["low"]) if ins.get("low") else None
        hi = self.val(st, ins["high"]) if ins.get("high") else None
        site = ins.get("pos", "")
        reg = ins["reg"]
        xt = ins["x"]["t"]
        if prog.kind(xt) == "ptr":
            # slicing an array through its pointer
            n = prog.array_len(prog.elem(xt))
            base = SliceV(x.obj, x.path, self.mk_int(0, 64), self.mk_int(n, 64), self.mk_int(n, 64))
        elif prog.kind(xt) == "slice":
            base = x
        else:
            raise Unsupported("slice of %s" % xt)
        lo = lo if lo is not None else self.mk_int(0, 64)
        hi = hi if hi is not None else base.len
        g = mk_and(self.int_cmp("<=", self.mk_int(0, 64), lo, True), self.int_cmp("<=", lo, hi, True), self.int_cmp("<=", hi, base.cap, True))
        if g is not True:
            st.oblige("bounds", site, g, "slice bounds 0 <= low <= high <= cap")
            st.assume(g)
        if self.mode == "bv":
            noff = self.dom.mk("bvadd", base.off, lo)
            nlen = self.dom.mk("bvsub", hi, lo)
            ncap = self.dom.mk("bvsub", base.cap, lo)
        else:
            noff, nlen, ncap = base.off + lo, hi - lo, base.cap - lo
        st.regs[reg] = SliceV(base.obj, base.path, noff, nlen, ncap)


class PathEnd(Exception):
    pass


_MISSING = object()


def _hashable(h):
    try:
        hash(h)
        return True
    except TypeError:
        return False


def _same(a, b):
    if a is b:
        return True
    try:
        return type(a) is type(b) and a == b
    except Exception:
        return False


def ring_atoms_of(f):
    if isinstance(f, tuple) and f:
        if f[0] == "req":
            return f[1].atoms()
        s = set()
        for g in f[1:]:
            if isinstance(g, tuple):
                s |= ring_atoms_of(g)
        return s
    return set()


def set_partitions(items):
    if not items:
        yield []
        return
    first, rest = items[0], items[1:]
    for part in set_partitions(rest):
        yield [[first]] + part
        for i in range(len(part)):
            yield part[:i] + [[first] + part[i]] + part[i + 1:]
