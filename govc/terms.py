"""Term representations shared by the govc domains.

Integers in `lia` mode are polynomials (class Poly) over named integer atoms with
integer coefficients; products of atoms are kept as monomials and linearised when
an SMT query is emitted.  Formulas are s-expression tuples.  Bit-vector terms in
`bv` mode are s-expression tuples too.
"""
from fractions import Fraction


class Poly:
    """Polynomial with integer coefficients: dict monomial(tuple of sorted atom names) -> int."""
    __slots__ = ("t", "_h")

    def __init__(self, t=None):
        self.t = {k: v for k, v in (t or {}).items() if v != 0}
        self._h = None

    @staticmethod
    def const(n):
        return Poly({(): int(n)})

    @staticmethod
    def atom(name):
        return Poly({(name,): 1})

    def is_const(self):
        return all(k == () for k in self.t)

    def const_val(self):
        return self.t.get((), 0)

    def atoms(self):
        s = set()
        for m in self.t:
            s.update(m)
        return s

    def monomials(self):
        return [m for m in self.t if len(m) >= 2]

    def __add__(self, o):
        o = to_poly(o)
        r = dict(self.t)
        for k, v in o.t.items():
            r[k] = r.get(k, 0) + v
        return Poly(r)

    __radd__ = __add__

    def __neg__(self):
        return Poly({k: -v for k, v in self.t.items()})

    def __sub__(self, o):
        return self + (-to_poly(o))

    def __rsub__(self, o):
        return to_poly(o) - self

    def __mul__(self, o):
        o = to_poly(o)
        r = {}
        for k1, v1 in self.t.items():
            for k2, v2 in o.t.items():
                k = tuple(sorted(k1 + k2))
                r[k] = r.get(k, 0) + v1 * v2
        return Poly(r)

    __rmul__ = __mul__

    def __pow__(self, n):
        r = Poly.const(1)
        for _ in range(n):
            r = r * self
        return r

    def __eq__(self, o):
        return isinstance(o, Poly) and self.t == o.t

    def __hash__(self):
        if self._h is None:
            self._h = hash(frozenset(self.t.items()))
        return self._h

    def degree(self):
        return max([len(k) for k in self.t] + [0])

    def subst(self, env):
        """env: atom name -> Poly"""
        r = Poly()
        for m, c in self.t.items():
            p = Poly.const(c)
            for a in m:
                p = p * (env[a] if a in env else Poly.atom(a))
            r = r + p
        return r

    def __repr__(self):
        if not self.t:
            return "0"
        parts = []
        for m, c in sorted(self.t.items(), key=lambda kv: (len(kv[0]), kv[0])):
            if m == ():
                parts.append(str(c))
            else:
                parts.append(("" if c == 1 else str(c) + "*") + "*".join(m))
        return " + ".join(parts)


def to_poly(x):
    if isinstance(x, Poly):
        return x
    if isinstance(x, bool):
        raise TypeError("bool is not an integer term")
    if isinstance(x, int):
        return Poly.const(x)
    raise TypeError("not a polynomial: %r" % (x,))


# ---------------------------------------------------------------- formulas

def mk_and(*fs):
    out = []
    for f in fs:
        if f is True:
            continue
        if f is False:
            return False
        if isinstance(f, tuple) and f and f[0] == "and":
            out.extend(f[1:])
        else:
            out.append(f)
    if not out:
        return True
    if len(out) == 1:
        return out[0]
    return ("and",) + tuple(out)


def mk_or(*fs):
    out = []
    for f in fs:
        if f is False:
            continue
        if f is True:
            return True
        if isinstance(f, tuple) and f and f[0] == "or":
            out.extend(f[1:])
        else:
            out.append(f)
    if not out:
        return False
    if len(out) == 1:
        return out[0]
    return ("or",) + tuple(out)


def mk_not(f):
    if f is True:
        return False
    if f is False:
        return True
    if isinstance(f, tuple) and f[0] == "not":
        return f[1]
    return ("not", f)


def mk_implies(a, b):
    if a is True:
        return b
    if a is False:
        return True
    if b is True:
        return True
    return ("=>", a, b)


def mk_iff(a, b):
    if a is True:
        return b
    if b is True:
        return a
    if a is False:
        return mk_not(b)
    if b is False:
        return mk_not(a)
    return ("iff", a, b)


def mk_ite_bool(c, a, b):
    if c is True:
        return a
    if c is False:
        return b
    return mk_and(mk_implies(c, a), mk_implies(mk_not(c), b))


def conjuncts(f):
    if f is True:
        return []
    if isinstance(f, tuple) and f and f[0] == "and":
        r = []
        for g in f[1:]:
            r.extend(conjuncts(g))
        return r
    return [f]


def smt_int(n):
    n = int(n)
    return str(n) if n >= 0 else "(- %d)" % (-n)
