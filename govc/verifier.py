"""The verifier object: program + contracts, per-function runs over alias partitions,
obligation discharge through the solver portfolio."""
import concurrent.futures
import hashlib
import os
import time
import traceback

from . import ssa as S
from . import cparse
from . import smt
from .terms import Poly, conjuncts
from .domains import Unsupported
from .symex import FuncRun, Ptr, SliceV, VerifError, set_partitions, PathEnd

FIELD = "filippo.io/edwards25519/field"
MAIN = "filippo.io/edwards25519"


class Verifier:
    def __init__(self, repo="/repo", tags="verif", contracts_dir=None, timeout=20, need=1, jobs=6):
        self.repo = repo
        self.tags = tags
        self.prog = S.load_program(repo, tags)
        self.contracts = cparse.Contracts()
        self.contract_files = []
        self.load_contracts(contracts_dir)
        self.timeout = timeout
        self.need = need
        self.tier = "thorough" if need > 1 else "quick"
        self.jobs = jobs
        self.lib_used = set()
        self.inlined = set()
        self.math_used = set()
        self.assumed = set()
        self.lemmas_used = set()
        self.bridges_used = set()
        self.calls = {}
        self.global_writes = []
        self.results = {}       # function display name -> dict
        self.errors = []
        # fork the worker processes for the certificate search now, while this process is still single-threaded
        from .ring import pool
        list(pool().map(abs, range(12)))

    # ------------------------------------------------------------ contracts
    def load_contracts(self, contracts_dir):
        pairs = [(os.path.join(self.repo, "field", "contracts_verif.go"), FIELD),
                 (os.path.join(self.repo, "contracts_verif.go"), MAIN)]
        self.contracts_source = "repo"
        for path, pkg in pairs:
            if contracts_dir and (not os.path.exists(path) or os.environ.get("GOVC_CONTRACTS") == "mirror"):
                alt = os.path.join(contracts_dir, "field_contracts_verif.go" if pkg == FIELD else "contracts_verif.go")
                if os.path.exists(alt):
                    path = alt
                    self.contracts_source = "mirror"
            if os.path.exists(path):
                cparse.parse_file(path, pkg, self.contracts)
                self.contract_files.append(path)

    def asm_funcs(self):
        if not hasattr(self, "_asm"):
            from .asm import parse_asm
            self._asm = parse_asm(os.path.join(self.repo, "field", "fe_amd64.s"))
        return self._asm

    def display_name(self, f):
        pkg, key = S.func_key(f)
        short = "field." if pkg == FIELD else "edwards25519."
        return short + key

    def contract_for(self, f):
        pkg, key = S.func_key(f)
        return self.contracts.funcs.get((pkg, key))

    def note_call(self, caller, callee):
        self.calls.setdefault(caller, set()).add(callee)

    def in_init(self, f):
        return f["short"] == "init" or f["short"].startswith("init#")

    # ------------------------------------------------------------ globals
    def find_global(self, run, name, pkg=None):
        for pk in ([pkg] if pkg else []) + [run.f.get("pkg", "")]:
            full = pk + "." + name
            if full in self.prog.globals:
                return full
        cands = [g for g in self.prog.globals if g.endswith("." + name)]
        if len(cands) == 1:
            return cands[0]
        return None

    def global_ptr(self, run, st, full, gtype=None):
        if full in run.global_objs:
            return Ptr(run.global_objs[full])
        g = self.prog.globals.get(full)
        if g is None:
            if gtype is None:
                raise VerifError("unknown global %s" % full)
            g = {"type": gtype}
        t = run.prog.elem(g["type"])
        short = full.split(".")[-1]
        o = run.new_obj(t, short, "global")
        run.global_objs[full] = o
        self._init_global(run, st, o, t, short)
        run.pre_objs.add(o)
        return Ptr(o)

    def _init_global(self, run, st, o, t, name):
        prog = run.prog
        for path, lt in prog.leaves(t):
            k = prog.kind(lt)
            if k == "ptr":
                po = run.new_obj(prog.elem(lt), name + prog.path_name(t, path) + "^", "global")
                run.pre_objs.add(po)
                self._init_global(run, st, po, prog.elem(lt), name + "^")
                v = Ptr(po)
            elif k in ("func", "interface", "slice", "other"):
                v = None
            else:
                v = run.fresh_value(st, lt, name + prog.path_name(t, path))
            st.mem[(o, path)] = v
            if run.old_mem is not None:
                run.old_mem[(o, path)] = v

    def setup_globals(self, run, st):
        pass

    def globalinv_for(self, run):
        """global invariants of the function's package and of package field (which every package here imports);
        each is evaluated in the scope of the package that states it"""
        out = []
        pk = run.f.get("pkg", "")
        for p in ([FIELD] if pk != FIELD else []) + [pk]:
            for (lab, ast, txt) in self.contracts.globalinv.get(p, []):
                out.append((lab, ast, txt, p))
        return out

    # ------------------------------------------------------------ partitions
    def partitions(self, f, c):
        prog = self.prog
        groups = {}
        for p in f["params"]:
            if prog.kind(p["type"]) == "ptr":
                u, _ = prog.under(prog.elem(p["type"]))
                groups.setdefault(u, []).append(p["name"])
        noalias = c.opts.get("noalias")
        per_group = []
        for u, names in groups.items():
            if len(names) < 2 or noalias == "all":
                per_group.append([[[n] for n in names]])
            else:
                per_group.append(list(set_partitions(names)))
        out = [[]]
        for alts in per_group:
            out = [a + b for a in out for b in alts]
        res = []
        for part in out:
            nm = "|".join("=".join(g) for g in sorted(part) if len(g) > 1) or "distinct"
            res.append((part, nm))
        # `opt elemalias=v:points:3`: the receiver may also be one of the elements of a slice of pointers -- one more
        # partition per index (pseudo-parameter "points[j]" in v's group; see FuncRun.read_cell)
        ea = c.opts.get("elemalias")
        if ea:
            pv, sl, n = str(ea).split(":")
            base = [g for g in out[0]]
            for j in range(int(n)):
                part = [list(g) + (["%s[%d]" % (sl, j)] if pv in g else []) for g in base]
                res.append((part, "%s=%s[%d]" % (pv, sl, j)))
        return res

    # ------------------------------------------------------------ running
    def functions_with_contracts(self):
        out = []
        for name, f in sorted(self.prog.funcs.items()):
            if self.contract_for(f) is not None:
                out.append(f)
        return out

    def variants_for(self, f):
        pkg, key = S.func_key(f)
        return self.contracts.variants.get((pkg, key), [])

    def verify_function(self, f, only_partition=None, contract=None):
        c = contract or self.contract_for(f)
        name = self.display_name(f) + ("[%s]" % c.variant if c.variant else "")
        rec = {"name": name, "mode": c.mode, "obligations": [], "partitions": [], "error": None, "trusted": c.trusted,
               "paths": 0, "pos": f.get("pos", "")}
        self.results[name] = rec
        if c.trusted:
            return rec
        asm_body = None
        if not f["hasBody"]:
            asm_body = self.asm_funcs().get(f["short"])
            if asm_body is None:
                rec["error"] = "no Go body and no assembly body in this build configuration"
                return rec
            rec["body"] = "field/fe_amd64.s"
        if c.mode not in ("lia", "bv", "ring", "group"):
            rec["error"] = "mode %s not implemented" % c.mode
            return rec
        qp = c.opts.get("quickparts")
        for part, pname in self.partitions(f, c):
            if only_partition and pname != only_partition:
                continue
            if qp and self.tier == "quick" and pname not in str(qp).split(","):
                rec.setdefault("partitions_skipped_in_quick", []).append(pname)
                continue
            run = FuncRun(self, f, c, part, pname)
            run.asm_body = asm_body
            run.fname = name
            try:
                obs = run.run()
                rec["obligations"].extend(obs)
                rec["partitions"].append(pname)
                rec["paths"] += run.paths
            except (Unsupported, VerifError, KeyError, AttributeError, TypeError, IndexError, AssertionError) as e:
                rec["error"] = "%s: %s: %s" % (pname, type(e).__name__, e)
                rec["trace"] = traceback.format_exc()
                rec["obligations"].extend(run.obligations)
                break
        return rec

    def verify_lemma(self, name):
        """a contract-level lemma is proved once for arbitrary values of its parameters"""
        L = self.contracts.lemmas[name]
        pkg = L["pkg"]
        params = []
        for pn, ty in L["params"]:
            ptr = ty.startswith("*")
            base = ty.lstrip("*")
            cands = [t for t in self.prog.types if t == pkg + "." + base or t == FIELD + "." + base.replace("field.", "")]
            if not cands:
                raise VerifError("lemma %s: unknown type %s" % (name, ty))
            t = cands[0]
            pt = "*" + t
            if pt not in self.prog.types:
                self.prog.types[pt] = {"kind": "ptr", "elem": t}
            params.append({"name": pn, "type": pt if ptr else t})
        f = {"name": pkg + ".lemma$" + name, "short": "lemma$" + name, "pkg": pkg, "params": params, "results": [],
             "blocks": [], "hasBody": False, "recv": False, "lemma": True, "pos": "contracts:%d" % L["line"], "freevars": [], "anon": []}
        c = cparse.FuncContract("lemma$" + name, [p for p, _ in L["params"]], pkg, L["line"])
        c.mode = "ring"
        c.ensures = [("holds", L["ast"], L["text"])]
        c.opts["noalias"] = "all"
        dn = self.display_name(f)
        rec = {"name": dn, "mode": "ring", "obligations": [], "partitions": [], "error": None, "trusted": False, "paths": 0, "pos": f["pos"]}
        self.results[dn] = rec
        for part, pname in self.partitions(f, c):
            run = FuncRun(self, f, c, part, pname)
            try:
                rec["obligations"].extend(run.run())
                rec["partitions"].append(pname)
                rec["paths"] += run.paths
            except (Unsupported, VerifError, KeyError, AttributeError, TypeError, IndexError, AssertionError) as e:
                rec["error"] = "%s: %s: %s" % (pname, type(e).__name__, e)
                rec["trace"] = traceback.format_exc()
                break
        return rec

    def discharge(self, obligations, progress=None):
        todo = []
        for ob in obligations:
            if ob.goal is True:
                ob.result = smt.Result("unsat", "syntactic", 0.0)
                ob.trivial = "goal folded to true"
                continue
            if ob.goal == "COVER":
                todo.append(ob)
                continue
            hy = set()
            for h in ob.hyps:
                hy.add(h) if not isinstance(h, list) else None
            gs = conjuncts(ob.goal)
            try:
                if all(g in hy for g in gs):
                    ob.result = smt.Result("unsat", "syntactic", 0.0)
                    ob.trivial = "goal is a hypothesis"
                    continue
            except TypeError:
                pass
            todo.append(ob)

        def work(ob):
            try:
                dom = domain_for(ob.mode, getattr(ob.run.dom, "specw", 520) if getattr(ob, "run", None) is not None else 520)
                if ob.goal == "COVER":
                    text = dom.emit(ob.decl, ob.bounds, list(ob.hyps), False, slice_hyps=False)
                    r = smt.run_portfolio(text, timeout=min(self.timeout, 4), want_model=False, need=1, use_cache=False)
                    # sat = reachable (good); unsat = vacuous (bad); unknown = not decided (tolerated, reported)
                    if r.status == "sat":
                        r2 = smt.Result("unsat", r.solver, r.secs, per_solver=r.per_solver)
                        r2.cover = "reachable"
                    elif r.status == "unsat" and ob.name.split("#")[1].startswith("cover.return"):
                        # an infeasible path (e.g. a comparison `byte < 0`): fine, unless every return of the function is dead
                        r2 = smt.Result("unsat", r.solver, r.secs, per_solver=r.per_solver)
                        r2.cover = "deadpath"
                    elif r.status == "unsat":
                        r2 = smt.Result("sat", r.solver, r.secs, "VACUOUS: hypotheses are contradictory", per_solver=r.per_solver)
                        r2.cover = "vacuous"
                    else:
                        r2 = smt.Result("unsat", "undecided-cover", r.secs, per_solver=r.per_solver)
                        r2.cover = "undecided"
                    ob.result = r2
                    ob.smt_size = len(text)
                    return ob
                if ob.mode == "ring":
                    return self.discharge_ring(ob, dom)
                if getattr(ob, "nia", False):
                    text = dom.emit(ob.decl, ob.bounds, list(ob.hyps), ob.goal, nia=True)
                else:
                    wide_ = None
                    if ob.mode == "lia" and getattr(ob, "run", None) is not None and ob.run.c.opts.get("wide"):
                        wide_ = int(ob.run.c.opts["wide"])
                    elif ob.mode == "lia" and ob.kind == "post" and getattr(ob, "run", None) is not None and ob.run.c.opts.get("widepost"):
                        wide_ = int(ob.run.c.opts["widepost"])   # postconditions over whole digit arrays: no cap on the cone
                    text = dom.emit(ob.decl, ob.bounds, list(ob.hyps), ob.goal, wide=wide_) if wide_ else dom.emit(ob.decl, ob.bounds, list(ob.hyps), ob.goal)
                ob.smt_size = len(text)
                ob.smt_hash = hashlib.sha256(text.encode()).hexdigest()[:16]
                r = smt.run_portfolio(text, timeout=self.timeout, need=self.need, fast=(ob.mode == "group"))
                if r.status != "unsat" and r.status != "sat":
                    # retry without slicing (rarely needed) -- slicing is only an optimisation
                    pass
                ob.result = r
                if r.status != "unsat":
                    ob.smt_text = text
            except Exception as e:  # noqa
                ob.result = smt.Result("error", "", 0.0, "%s: %s\n%s" % (type(e).__name__, e, traceback.format_exc()))
            return ob

        with concurrent.futures.ThreadPoolExecutor(max_workers=self.jobs) as ex:
            for i, ob in enumerate(ex.map(work, todo)):
                if progress:
                    progress(ob)
        # vacuity: a function (under a partition) none of whose returns is reachable proves nothing
        groups = {}
        for ob in obligations:
            if ob.kind == "cover" and "cover.return" in ob.name and ob.result is not None:
                groups.setdefault((ob.fn, ob.part), []).append(ob)
        for (fn, part), obs in groups.items():
            if all(getattr(o.result, "cover", "") == "deadpath" for o in obs):
                o = obs[0]
                o.result = smt.Result("sat", o.result.solver, o.result.secs, "VACUOUS: no return of %s is reachable under its precondition" % fn)
                o.result.cover = "vacuous"
        return obligations


def _discharge_ring(self, ob, dom):
    """DPLL(T)-style loop: the SMT solver sees ring equalities as propositional atoms; every model is checked
    against the theory of fields of characteristic p by certified ideal membership, which yields lemmas"""
    from .ringlemmas import m1_lemmas, all_atoms, theory_check
    from .ring import set_mod, P25519
    set_mod(getattr(getattr(ob, "run", None), "ringmod", P25519))
    import time as _t
    t0 = _t.time()
    lemmas, certs = m1_lemmas(all_atoms(ob))
    rounds = 0
    total = 0.0
    while True:
        rounds += 1
        text = dom.emit(ob.decl, ob.bounds, list(ob.hyps), ob.goal, lemmas=lemmas)
        ob.smt_size = len(text)
        r = smt.run_portfolio(text, timeout=self.timeout, need=self.need if rounds > 1 else 1)
        total += r.secs
        if r.status != "sat" or rounds > 40 or _t.time() - t0 > 6 * self.timeout * smt.slack():
            break
        names = dom.last_names
        polys = {}
        for f in list(ob.hyps) + [ob.goal] + lemmas:
            if isinstance(f, tuple):
                from .ring import req_atoms
                for a in req_atoms(f):
                    polys[a[1].key()] = a[1]
        T = [polys[k] for n, k in names.items() if r.model.get(n) is True and k in polys]
        F = [polys[k] for n, k in names.items() if r.model.get(n) is False and k in polys]
        tk = {p.key() for p in T}
        for h in ob.hyps:
            if isinstance(h, tuple) and h and h[0] == "req" and h[1].key() not in tk:
                T.append(h[1])
                tk.add(h[1].key())
        F = [f for f in F if f.key() not in tk]
        t1 = _t.time()
        hubs = None
        run_ = getattr(ob, "run", None)
        if run_ is not None:
            hubs = getattr(run_, "_global_atoms", None)
            if hubs is None:
                hubs = set()
                for (o_, p_), v_ in list(run_.old_mem.items()):
                    info_ = run_.objs.get(o_)
                    if info_ is not None and info_.origin == "global" and hasattr(v_, "poly"):
                        hubs |= v_.poly.atoms()
                run_._global_atoms = hubs
        new, nc = theory_check(T, F, hubs=hubs)
        if os.environ.get("GOVC_DEBUG_RING"):
            print("ROUND", rounds, ob.name, "T=%d F=%d -> %d lemmas in %.1fs" % (len(T), len(F), len(new), _t.time() - t1))
            for x in T:
                print("   T", x.key()[:150])
            for x in F:
                print("   F", x.key()[:150])
            for c_ in nc:
                print("   =>", str(c_)[:300])
        if not new:
            break
        lemmas.extend(new)
        certs.extend(nc)
    if r.status == "unsat" and self.need > 1 and rounds == 1:
        pass
    r.secs = total
    ob.result = r
    ob.lemmas = certs
    ob.rounds = rounds
    if r.status != "unsat":
        ob.smt_text = text
    return ob


Verifier.discharge_ring = _discharge_ring

_domcache = {}


def domain_for(mode, specw=520):
    from .domains import LiaDomain, BvDomain
    if mode == "lia":
        return LiaDomain()
    if mode == "bv":
        return BvDomain(specw)
    if mode == "ring":
        from .ring import RingDomain
        return RingDomain()
    if mode == "group":
        from .group import GroupDomain
        return GroupDomain()
    raise Unsupported(mode)
