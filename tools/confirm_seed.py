#!/usr/bin/env python3
"""Confirm a seeded change independently: in a scratch worktree (outside /repo and /verif) the patch must
apply, build, pass the whole existing suite, and its demonstration must fail with the change and pass without.
Writes /verif/seeded/<id>/{patch.diff, demo_test.go, meta.json}."""
import json, os, shutil, subprocess, sys

ENV = dict(os.environ, GOFLAGS="-mod=mod", GOPROXY="off", GOSUMDB="off", GOTOOLCHAIN="local")


def sh(cmd, cwd, timeout=900):
    r = subprocess.run(cmd, cwd=cwd, shell=True, capture_output=True, text=True, env=ENV, timeout=timeout)
    return r.returncode, (r.stdout + r.stderr)[-3000:]


def main(prop, which):
    src = "/tmp/seed/%s.out/%s" % (prop, which)
    sid = "%s%s" % (prop, which)
    wt = "/tmp/seedconfirm/%s" % sid
    meta = json.load(open(src + "/meta.json"))
    os.makedirs("/tmp/seedconfirm", exist_ok=True)
    sh("git -C /repo worktree remove --force %s" % wt, "/")
    base = subprocess.run("git -C /repo rev-list --max-parents=0 HEAD", shell=True, capture_output=True, text=True).stdout.strip()
    rc, out = sh("git -C /repo worktree add --detach %s %s" % (wt, base), "/")
    assert rc == 0, out
    res = {"ran": []}
    try:
        ddir = meta.get("demo_package_dir", ".")
        demo_dst = os.path.join(wt, ddir, "seed_demo_test.go")
        rc, out = sh("git apply %s/patch.diff" % src, wt)
        res["applies"] = rc == 0
        res["ran"].append("git apply patch.diff")
        rc, out = sh("go build ./... && go test -vet=off -count=1 ./...", wt)
        res["suite_passes_with_change"] = rc == 0
        res["ran"].append("go build ./... && go test -vet=off -count=1 ./...   (with change)")
        shutil.copy(src + "/demo_test.go", demo_dst)
        rc, out = sh("go test -vet=off -count=1 -run '^TestSeedDemo$' ./%s" % ddir, wt)
        res["demo_fails_with_change"] = rc != 0
        res["demo_output_with_change"] = out[-800:]
        res["ran"].append("go test -run ^TestSeedDemo$ ./%s   (with change: must fail)" % ddir)
        os.remove(demo_dst)
        sh("git checkout -- .", wt)
        shutil.copy(src + "/demo_test.go", demo_dst)
        rc, out = sh("go test -vet=off -count=1 -run '^TestSeedDemo$' ./%s" % ddir, wt)
        res["demo_passes_without_change"] = rc == 0
        res["ran"].append("go test -run ^TestSeedDemo$ ./%s   (without change: must pass)" % ddir)
    finally:
        sh("git -C /repo worktree remove --force %s" % wt, "/")
    ok = all(res.get(k) for k in ("applies", "suite_passes_with_change", "demo_fails_with_change", "demo_passes_without_change"))
    res["confirmed"] = ok
    dst = "/verif/seeded/%s" % sid
    if ok:
        os.makedirs(dst, exist_ok=True)
        shutil.copy(src + "/patch.diff", dst + "/patch.diff")
        shutil.copy(src + "/demo_test.go", dst + "/demo_test.go")
        m = {"id": sid, "property": prop, "what_it_breaks": meta.get("what_it_breaks"), "needs_to_manifest": meta.get("needs_to_manifest"),
             "files_changed": meta.get("files_changed"), "demo_package_dir": meta.get("demo_package_dir", "."),
             "source": "independent sub-agent given only the property text and a scratch worktree",
             "confirmed_by_me": res}
        json.dump(m, open(dst + "/meta.json", "w"), indent=1)
    print(sid, "CONFIRMED" if ok else "REJECTED", {k: v for k, v in res.items() if k not in ("ran", "demo_output_with_change")})


if __name__ == "__main__":
    main(sys.argv[1], sys.argv[2])
