#!/usr/bin/env python3
"""Regenerate MANIFEST.json from spec/propmap.json + spec/claims.json (texts per property)."""
import json, subprocess
R = '/verif'
props = [json.loads(l) for l in open(R + '/properties.jsonl')]
pm = json.load(open(R + '/spec/propmap.json'))
claims = json.load(open(R + '/spec/claims.json'))
hook = subprocess.run(['git', '-C', '/repo', 'log', '--format=%H %s'], capture_output=True, text=True).stdout.strip().split('\n')
hooks = [l.split()[0] for l in hook if 'verif hook' in l]
m = {
 "version": 1,
 "setup_cmd": "cd /verif && export GOFLAGS=-mod=mod GOPROXY=off GOSUMDB=off GOTOOLCHAIN=local && mkdir -p bin && go build -o bin/ssajson ./cmd/ssajson",
 "hooks": {"guard": "verif", "enable": "go/packages is loaded with -tags verif (and verif,purego); contracts_verif.go files are comment-only (the contracts in them are read as text); roundtrip_verif.go adds two uncalled functions composing Bytes and SetBytes, which carry the round-trip contracts of C05",
           "baseline_off_cmd": "cd /repo && GOFLAGS=-mod=mod GOPROXY=off GOSUMDB=off GOTOOLCHAIN=local go test -vet=off -count=1 ./...",
           "source_commits": hooks, "add_only": True},
 "engines": [{"name": "govc", "path": "/verif/govc", "serves_properties": sorted(pm.keys()),
              "kind_free_text": "home-grown contract verifier for Go: go/ssa (naive form) + amd64 asm front ends, forward symbolic execution with alias partitions and loop invariants, verification conditions in QF_LIA / QF_(UF)BV / polynomial identities, discharged by a portfolio of z3 4.8.12, z3 5.1.0 and cvc5 1.0; counterexamples replayed on the real code with go test -overlay"}],
 "checks": [], "not_applicable": [],
 "notes": "Contracts live in /repo/field/contracts_verif.go and /repo/contracts_verif.go (comment-only, //go:build verif); byte-identical mirror in /verif/contracts is used when a tree lacks them; /repo/roundtrip_verif.go (verif tag only) holds the two compositions of Bytes/SetBytes that carry the round-trip contracts. Measured wall time on the 16-core sandbox: all 20 quick checks about 25 min in sequence with a warm verdict cache (/verif/.cache, not committed; C01 about 10 min, C02/C05/C11/C12 about 2 min each, the rest under 1 min) and about 35 min from an empty cache (C01 15 min); thorough: C01 about 2 h 15 min, C11 and C12 about 50 min each, C08 10 min, C07 6 min, the others under 5 min. All 40 commands exit 0 on the unchanged tree. See DESIGN.md (STATUS section first)."
}
for p in props:
    i = p['id']
    if i in pm and i in claims and claims[i].get('claimed', True):
        c = claims[i]
        m['checks'].append({
            "property_id": i,
            "quick_cmd": "cd /verif && python3-vt -m govc.check --property %s --tier quick" % i,
            "thorough_cmd": "cd /verif && python3-vt -m govc.check --property %s --tier thorough" % i,
            "evidence_file": "/verif/evidence/%s.json" % i,
            "replay_cmd_template": "cat {path}   # the file carries the failed obligation, the solver output, the model's inputs and the generated go test (field replay_test); re-run the check to replay",
            "engine": "govc",
            "level_claimed": {"category": pm[i].get("level", "proof"), "text": c["text"], "design_ref": c.get("design_ref", "DESIGN.md section 5 " + i)},
            "level_note": c["note"],
            "technique": c.get("technique", "contract-based deductive verification: function contracts + generated VCs over go/ssa, discharged by z3/cvc5"),
        })
    else:
        reason = claims.get(i, {}).get("na_reason", "not yet claimed: the contracts for this property are still under construction (DESIGN.md section 9 order of work); nothing is asserted about it yet")
        m['not_applicable'].append({"property_id": i, "reason": reason})
json.dump(m, open(R + '/MANIFEST.json', 'w'), indent=1)
print("claimed:", [c['property_id'] for c in m['checks']])
