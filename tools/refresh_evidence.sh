#!/bin/sh
# run every registered quick check on the unchanged /repo and keep the evidence files (to be committed)
cd /verif
rc=0
for p in $(python3 -c "import json; print(' '.join(c['property_id'] for c in json.load(open('MANIFEST.json'))['checks']))"); do
  VERIF_SEED=1 python3-vt -m govc.check --property $p --tier quick > /tmp/refresh_$p.out 2>&1 || rc=1
  tail -1 /tmp/refresh_$p.out | cut -c1-200
  grep -c "^VIOLATION" /tmp/refresh_$p.out | sed "s/^/   violations: /"
done
exit $rc
