#!/bin/sh
# every registered quick check must stay green on the harmless-change corpus (selftest/harmless/*.diff)
cd /verif
props=${PROPS:-"C09 C20 C02 C12 C17 C01 C11"}
for h in selftest/harmless/*.diff; do
  n=$(basename $h .diff)
  rm -rf /tmp/hrepo; git -C /repo worktree prune; git -C /repo worktree add -q --detach /tmp/hrepo HEAD
  (cd /tmp/hrepo && git apply /verif/$h) || { echo "$n: patch does not apply"; continue; }
  for p in $props; do
    out=$(GOVC_EVIDENCE_DIR=/tmp/hev GOVC_REPLAY_DIR=/tmp/hrp python3-vt -m govc.check --property $p --repo /tmp/hrepo 2>&1)
    rc=$?
    echo "$n $p rc=$rc $(echo "$out" | tail -1 | cut -c1-110)"
    [ $rc -ne 0 ] && echo "$out" | grep VIOLATION | head -3 | cut -c1-250
  done
  git -C /repo worktree remove --force /tmp/hrepo
done
rm -rf /tmp/hev /tmp/hrp
