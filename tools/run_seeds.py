#!/usr/bin/env python3
"""Run the registered checks against the seeded changes (each applied to a scratch copy of /repo's HEAD,
outside /repo and /verif, removed afterwards).  Usage: run_seeds.py [-j N] [seed ids...]
Writes /verif/seeded/RESULTS.json and updates each meta.json with `detected_by`."""
import json, os, shutil, subprocess, sys, concurrent.futures, glob, time

ROOT = "/verif"
pm = json.load(open(ROOT + "/spec/propmap.json"))
ENV = dict(os.environ, GOFLAGS="-mod=mod", GOPROXY="off", GOSUMDB="off", GOTOOLCHAIN="local")


def run_seed(sid):
    d = "%s/seeded/%s" % (ROOT, sid)
    meta = json.load(open(d + "/meta.json"))
    prop = meta["property"]
    wt = "/tmp/seedrun/%s" % sid
    shutil.rmtree(wt, ignore_errors=True)
    os.makedirs("/tmp/seedrun", exist_ok=True)
    subprocess.run(["git", "-C", "/repo", "worktree", "remove", "--force", wt], capture_output=True)
    r = subprocess.run(["git", "-C", "/repo", "worktree", "add", "--detach", wt, "HEAD"], capture_output=True, text=True)
    res = {"seed": sid, "property": prop, "detected_by": [], "checked": [], "lines": []}
    try:
        r = subprocess.run(["git", "apply", d + "/patch.diff"], cwd=wt, capture_output=True, text=True)
        if r.returncode != 0:
            res["error"] = "patch does not apply to HEAD: " + r.stderr[-300:]
            return res
        order = ([prop] if prop in pm else []) + [p for p in sorted(pm) if p != prop]
        for p in order:
            t0 = time.time()
            env = dict(ENV, GOVC_EVIDENCE_DIR="/tmp/seedrun/ev_%s" % sid, GOVC_REPLAY_DIR="/tmp/seedrun/rp_%s" % sid)
            r = subprocess.run(["python3-vt", "-m", "govc.check", "--property", p, "--repo", wt], cwd=ROOT, capture_output=True, text=True, env=env, timeout=3600)
            res["checked"].append(p)
            vl = [l for l in r.stdout.split("\n") if l.startswith("VIOLATION")]
            if r.returncode != 0 and vl:
                res["detected_by"].append(p)
                res["lines"].extend(l[:400] for l in vl[:3])
                # keep one replay file as the example
                if p == prop or not res.get("example_replay"):
                    try:
                        path = vl[0].split("replay=")[1].split()[0]
                        rp = json.load(open(path))
                        res["example_replay"] = {"obligation": rp.get("obligation"), "replay": rp.get("replay"), "inputs": rp.get("replay_inputs")}
                    except Exception:
                        pass
            if res["detected_by"] and p == prop:
                break
            if res["detected_by"] and len(res["checked"]) >= 3:
                break
    finally:
        subprocess.run(["git", "-C", "/repo", "worktree", "remove", "--force", wt], capture_output=True)
        shutil.rmtree("/tmp/seedrun/ev_%s" % sid, ignore_errors=True)
        shutil.rmtree("/tmp/seedrun/rp_%s" % sid, ignore_errors=True)
    meta["detected_by"] = res["detected_by"]
    meta["checked_with"] = res["checked"]
    meta["violation_lines"] = res["lines"]
    if res.get("example_replay"):
        meta["example_replay"] = res["example_replay"]
    json.dump(meta, open(d + "/meta.json", "w"), indent=1)
    return res


def main():
    args = sys.argv[1:]
    j = 4
    if args and args[0] == "-j":
        j = int(args[1]); args = args[2:]
    ids = args or sorted(os.path.basename(p) for p in glob.glob(ROOT + "/seeded/C*"))
    out = {}
    with concurrent.futures.ThreadPoolExecutor(max_workers=j) as ex:
        for res in ex.map(run_seed, ids):
            out[res["seed"]] = res
            print(res["seed"], "property", res["property"], "DETECTED by " + ",".join(res["detected_by"]) if res["detected_by"] else "MISSED (checked %s)" % ",".join(res["checked"]), res.get("error", ""), flush=True)
    allr = {}
    try:
        allr = json.load(open(ROOT + "/seeded/RESULTS.json"))
    except Exception:
        pass
    allr.update(out)
    json.dump(allr, open(ROOT + "/seeded/RESULTS.json", "w"), indent=1)


if __name__ == "__main__":
    main()
