#!/bin/sh
# run every registered thorough check on the unchanged /repo; evidence and replays go to a scratch directory so that
# the committed quick evidence is not replaced.  Usage: run_thorough.sh [ids...]
cd /verif
PROPS="${*:-$(python3 -c "import json; print(' '.join(c['property_id'] for c in json.load(open('MANIFEST.json'))['checks']))")}"
rc=0
for p in $PROPS; do
  GOVC_EVIDENCE_DIR=/tmp/evt GOVC_REPLAY_DIR=/tmp/rpt VERIF_SEED=1 python3-vt -m govc.check --property $p --tier thorough > /tmp/thorough_$p.out 2>&1 || rc=1
  tail -1 /tmp/thorough_$p.out | cut -c1-200
  grep -c "^VIOLATION" /tmp/thorough_$p.out | sed "s/^/   violations: /"
done
exit $rc
