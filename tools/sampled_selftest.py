#!/usr/bin/env python3
"""Cross-check of the machinery itself: every tier-F / tier-G contract that the verifier proves is also evaluated on
the real code with sampled inputs (sampled.py).  A clause that is proved but falsified by an execution would mean the
generator, the abstraction or a trusted fact is wrong -- so the expected output is `falsified: 0`.
Usage: sampled_selftest.py [--repo DIR] [name substrings...]   (run with python3-vt)"""
import sys, os, json
sys.path.insert(0, "/verif")
from govc.verifier import Verifier
from govc.symex import FuncRun
from govc.sampled import sampled_replay

args = sys.argv[1:]
repo = "/repo"
if args and args[0] == "--repo":
    repo, args = args[1], args[2:]
V = Verifier(repo, "verif", "/verif/contracts", 20, jobs=2)


class Ob:
    pass


tot = bad = na = 0
rows = []
for f in V.functions_with_contracts():
    c = V.contract_for(f)
    name = V.display_name(f)
    if c.mode not in ("ring", "group", "lia", "bv") or c.trusted or not f.get("hasBody"):
        continue
    if args and not any(a in name for a in args):
        continue
    for part, pname in V.partitions(f, c):
        run = FuncRun(V, f, c, part, pname)
        ob = Ob()
        ob.run, ob.part, ob.fn, ob.name = run, pname, name, name + "#selftest@" + pname
        try:
            res = sampled_replay(repo, ob, trials=120, all_modes=True)
        except Exception as e:
            res = {"__error__": "%s: %s" % (type(e).__name__, e)}
        if res is None:
            na += 1
            rows.append((name, pname, "n/a"))
            break
        if res.get("__error__"):
            rows.append((name, pname, "harness error: " + res["__error__"][-300:].replace("\n", " ")))
            bad += 1
            continue
        tot += 1
        failed = sorted(k for k in res if not k.startswith("__") or k in ("__frame__", "__panic__", "__nopanic__"))
        if failed:
            bad += 1
            rows.append((name, pname, "FALSIFIED %s inputs: %s" % (failed, res.get("__inputs__", "")[:400])))
        else:
            rows.append((name, pname, "ok (%s inputs in the precondition; clauses without translation: %d)" % (res.get("__used__"), len(res.get("__skipped__", [])))))
for r in rows:
    print("%-60s %-14s %s" % r)
print("functions x partitions sampled: %d   not applicable: %d   falsified or harness errors: %d" % (tot, na, bad))
from govc.ring import kill_pool
kill_pool()
sys.stdout.flush()
os._exit(1 if bad else 0)
