#!/usr/bin/env python3
"""regenerate the table of section S.6 of DESIGN.md from seeded/*/meta.json"""
import json, glob, os, re
rows = ["| seed | change (abridged) | caught by | first failing obligation | failing input |", "|------|-------------------|-----------|--------------------------|---------------|"]
for d in sorted(glob.glob("/verif/seeded/C*")):
    m = json.load(open(d + "/meta.json"))
    sid = os.path.basename(d)
    desc = (m.get("what_it_breaks") or m.get("description") or "")
    desc = re.sub(r"\s+", " ", desc)[:95] + ("…" if len(desc) > 95 else "")
    det = ", ".join(m.get("detected_by") or []) or "not detected"
    ob = ""
    inp = ""
    vl = m.get("violation_lines") or []
    if vl:
        mm = re.search(r"obligation=(\S+)", vl[0])
        ob = "`%s`" % mm.group(1)[:80] if mm else ""
        inp = "none" if "no-failing-input-found" in vl[0] else "replayed"
    rows.append("| %s | %s | %s | %s | %s |" % (sid, desc.replace("|", "/"), det, ob, inp))
p = "/verif/DESIGN.md"
s = open(p).read()
a = s.index("| seed | change (abridged) |")
b = s.index("\nNotes.\n", a)
s = s[:a] + "\n".join(rows) + "\n" + s[b:]
open(p, "w").write(s)
print(len(rows) - 2, "rows")
