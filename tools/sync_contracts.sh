#!/bin/sh
# copy the contract mirror into /repo (comment-only files behind the `verif` build tag) and commit there
set -e
cp /verif/contracts/field_contracts_verif.go /repo/field/contracts_verif.go
[ -f /verif/contracts/contracts_verif.go ] && cp /verif/contracts/contracts_verif.go /repo/contracts_verif.go
[ -f /verif/contracts/roundtrip_verif.go ] && cp /verif/contracts/roundtrip_verif.go /repo/roundtrip_verif.go
cd /repo
git add field/contracts_verif.go
[ -f roundtrip_verif.go ] && git add roundtrip_verif.go
[ -f contracts_verif.go ] && git add contracts_verif.go
if ! git diff --cached --quiet; then
  git commit -qm "${1:-verif hook: contracts (comment-only files behind the verif build tag)}"
  git log --oneline | head -1
fi
